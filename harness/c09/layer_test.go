package c09

// services/blockrelay/standard on top of the strategy: AuctionBlock caches the
// winner (or a dummy when there is none); BuilderBid afterwards serves it to a
// beacon node without asking the relays again.

import (
	"context"
	"encoding/json"
	"errors"
	"fmt"
	"math/big"
	"strings"
	"sync"
	"sync/atomic"
	"time"

	"github.com/attestantio/go-block-relay/services/blockauctioneer"
	builderapi "github.com/attestantio/go-builder-client/api"
	builderspec "github.com/attestantio/go-builder-client/spec"
	"github.com/attestantio/go-eth2-client/api"
	apiv1 "github.com/attestantio/go-eth2-client/api/v1"
	"github.com/attestantio/go-eth2-client/spec/bellatrix"
	"github.com/attestantio/go-eth2-client/spec/phase0"
	"github.com/attestantio/vouch/services/beaconblockproposer"
	"github.com/attestantio/vouch/services/blockrelay"
	standardblockrelay "github.com/attestantio/vouch/services/blockrelay/standard"
	nullmetrics "github.com/attestantio/vouch/services/metrics/null"
	"github.com/attestantio/vouch/strategies/builderbid"
	"github.com/google/uuid"
	"github.com/rs/zerolog"
	e2types "github.com/wealdtech/go-eth2-types/v2"
	e2wtypes "github.com/wealdtech/go-eth2-wallet-types/v2"

	"verifharness/internal/fakes"
)

type layerAccount struct{ pub e2types.PublicKey }

func (a *layerAccount) ID() uuid.UUID                { return uuid.UUID{1} }
func (a *layerAccount) Name() string                 { return "c09" }
func (a *layerAccount) PublicKey() e2types.PublicKey { return a.pub }

type rawPub [48]byte

func (p rawPub) Marshal() []byte           { return p[:] }
func (rawPub) Aggregate(e2types.PublicKey) {}
func (p rawPub) Copy() e2types.PublicKey   { return p }

type layerAccounts struct {
	acct  e2wtypes.Account
	calls int
}

func (l *layerAccounts) AccountByPublicKey(_ context.Context, pubkey phase0.BLSPubKey) (e2wtypes.Account, error) {
	for i := 0; i < 2; i++ {
		if pubkey == proposerOf(i) {
			if i == 0 {
				return l.acct, nil
			}
			return &layerAccount{pub: rawPub(proposerOf(i))}, nil
		}
	}
	return nil, errors.New("unknown account")
}

// The first request (initial fetch of the execution configuration, inline in
// New) sees the account; later ones (validator registrations, which are not the
// subject here) see none.
func (l *layerAccounts) ValidatingAccountsForEpoch(context.Context, phase0.Epoch) (map[phase0.ValidatorIndex]e2wtypes.Account, error) {
	l.calls++
	if l.calls == 1 {
		return map[phase0.ValidatorIndex]e2wtypes.Account{1: l.acct}, nil
	}
	return map[phase0.ValidatorIndex]e2wtypes.Account{}, nil
}

func (l *layerAccounts) ValidatingAccountsForEpochByIndex(context.Context, phase0.Epoch, []phase0.ValidatorIndex) (map[phase0.ValidatorIndex]e2wtypes.Account, error) {
	return map[phase0.ValidatorIndex]e2wtypes.Account{}, nil
}

func (l *layerAccounts) SyncCommitteeAccountsForEpoch(context.Context, phase0.Epoch) (map[phase0.ValidatorIndex]e2wtypes.Account, error) {
	return map[phase0.ValidatorIndex]e2wtypes.Account{}, nil
}

func (l *layerAccounts) SyncCommitteeAccountsForEpochByIndex(context.Context, phase0.Epoch, []phase0.ValidatorIndex) (map[phase0.ValidatorIndex]e2wtypes.Account, error) {
	return map[phase0.ValidatorIndex]e2wtypes.Account{}, nil
}

type layerValidators struct{}

func (layerValidators) Validators(context.Context, *api.ValidatorsOpts) (*api.Response[map[phase0.ValidatorIndex]*apiv1.Validator], error) {
	return &api.Response[map[phase0.ValidatorIndex]*apiv1.Validator]{Data: map[phase0.ValidatorIndex]*apiv1.Validator{}, Metadata: map[string]any{}}, nil
}

type layerRegSigner struct{}

func (layerRegSigner) SignValidatorRegistration(context.Context, e2wtypes.Account, *builderapi.VersionedValidatorRegistration) (phase0.BLSSignature, error) {
	return phase0.BLSSignature{}, errors.New("not under test")
}

type layerMajordomo struct{ doc []byte }

func (m *layerMajordomo) Fetch(context.Context, string) ([]byte, error) { return m.doc, nil }

// weiAsETH renders an integer amount of wei as a decimal amount of ETH, the
// unit of the execution configuration document.
func weiAsETH(wei *big.Int) string {
	s := wei.String()
	for len(s) < 19 {
		s = "0" + s
	}
	return s[:len(s)-18] + "." + s[len(s)-18:]
}

type layerWorld struct {
	svc      *standardblockrelay.Service
	counting *countingProvider
}

// countingProvider passes every call through to the real strategy and counts them:
// a second call for the same auction is a refetch.
type countingProvider struct {
	inner builderbid.Provider
	calls atomic.Int32
	mu    sync.Mutex
	log   []stratCall // completed calls
}

// stratCall is one completed run of the bid strategy.
type stratCall struct {
	slot   phase0.Slot
	parent phase0.Hash32
	pubkey phase0.BLSPubKey
	res    *blockauctioneer.Results
	err    error
}

func (p *countingProvider) BuilderBid(ctx context.Context,
	slot phase0.Slot,
	parentHash phase0.Hash32,
	pubkey phase0.BLSPubKey,
	proposerConfig *beaconblockproposer.ProposerConfig,
	builderConfigs map[phase0.BLSPubKey]*blockrelay.BuilderConfig,
) (*blockauctioneer.Results, error) {
	p.calls.Add(1)
	res, err := p.inner.BuilderBid(ctx, slot, parentHash, pubkey, proposerConfig, builderConfigs)
	p.mu.Lock()
	p.log = append(p.log, stratCall{slot: slot, parent: parentHash, pubkey: pubkey, res: res, err: err})
	p.mu.Unlock()
	return res, err
}

func (p *countingProvider) completed() []stratCall {
	p.mu.Lock()
	defer p.mu.Unlock()
	return append([]stratCall(nil), p.log...)
}

type layerObs struct {
	bid       *builderspec.VersionedSignedBuilderBid
	err       error
	panicked  string
	callsPre  int32
	callsPost int32
	took      time.Duration
}

func newLayer(ctx context.Context,
	c *Case,
	clock *fakes.VClock,
	provider builderbid.Provider,
	relayConfigs []*beaconblockproposer.RelayConfig,
	builderConfigs map[phase0.BLSPubKey]*blockrelay.BuilderConfig,
) (*layerWorld, error) {
	relays := map[string]map[string]string{}
	for i, rc := range relayConfigs {
		entry := map[string]string{}
		if rc.PublicKey != nil {
			entry["public_key"] = rc.PublicKey.String()
		}
		if rc.Grace > 0 {
			entry["grace"] = fmt.Sprint(rc.Grace.Milliseconds())
		}
		if min := bigOf(c.Relays[i].MinValue); min.Sign() > 0 {
			entry["min_value"] = weiAsETH(min)
		}
		relays[rc.Address] = entry
	}
	doc, err := json.Marshal(map[string]any{"version": 2, "relays": relays})
	if err != nil {
		return nil, err
	}
	counting := &countingProvider{inner: provider}
	accts := &layerAccounts{acct: &layerAccount{pub: rawPub(proposerPubkey)}}
	svc, err := standardblockrelay.New(ctx,
		standardblockrelay.WithLogLevel(zerolog.Disabled),
		standardblockrelay.WithMonitor(&nullmetrics.Service{}),
		standardblockrelay.WithMajordomo(&layerMajordomo{doc: doc}),
		standardblockrelay.WithScheduler(fakes.NewSched()),
		// an address that cannot be bound: the REST daemon is not under test and must not
		// collect listeners over thousands of cases (a failed bind is only logged)
		standardblockrelay.WithListenAddress("192.0.2.1:1"),
		standardblockrelay.WithChainTime(clock),
		standardblockrelay.WithConfigURL("file:///c09/execution-config.json"),
		standardblockrelay.WithFallbackFeeRecipient(bellatrix.ExecutionAddress(nonZeroFeeRecipient)),
		standardblockrelay.WithFallbackGasLimit(30_000_000),
		standardblockrelay.WithAccountsProvider(accts),
		standardblockrelay.WithValidatorsProvider(layerValidators{}),
		standardblockrelay.WithValidatingAccountsProvider(accts),
		standardblockrelay.WithValidatorRegistrationSigner(layerRegSigner{}),
		standardblockrelay.WithReleaseVersion("c09"),
		standardblockrelay.WithBuilderBidProvider(counting),
		standardblockrelay.WithBuilderConfigs(builderConfigs),
	)
	if err != nil {
		return nil, fmt.Errorf("cannot construct block relay service: %w", err)
	}
	// the configuration must have arrived as generated
	pc, err := svc.ProposerConfig(ctx, accts.acct, proposerPubkey)
	if err != nil {
		return nil, fmt.Errorf("proposer config: %w", err)
	}
	if len(pc.Relays) != len(relayConfigs) {
		return nil, fmt.Errorf("block relay service resolved %d relays, configured %d", len(pc.Relays), len(relayConfigs))
	}
	for _, got := range pc.Relays {
		found := false
		for i, want := range relayConfigs {
			if got.Address != want.Address {
				continue
			}
			found = true
			if got.MinValue.BigInt().Cmp(bigOf(c.Relays[i].MinValue)) != 0 || !got.MinValue.IsInteger() || got.Grace != want.Grace ||
				(got.PublicKey == nil) != (want.PublicKey == nil) || (got.PublicKey != nil && *got.PublicKey != *want.PublicKey) {
				return nil, fmt.Errorf("block relay service resolved relay %s differently from the generated configuration: %v", got.Address, got)
			}
		}
		if !found {
			return nil, fmt.Errorf("block relay service resolved unknown relay %s", got.Address)
		}
	}
	return &layerWorld{svc: svc, counting: counting}, nil
}

// after asks the service, as a beacon node would, for the bid of the auction
// that has just finished.
func (l *layerWorld) after(ctx context.Context, c *Case, relays []*relayDouble) *layerObs {
	lo := &layerObs{}
	lo.callsPre = l.counting.calls.Load()
	start := time.Now()
	func() {
		defer func() {
			if r := recover(); r != nil {
				lo.panicked = fmt.Sprint(r)
			}
		}()
		lo.bid, lo.err = l.svc.BuilderBid(ctx, phase0.Slot(c.Slot), parentHash, proposerPubkey)
	}()
	lo.took = time.Since(start)
	lo.callsPost = l.counting.calls.Load()
	return lo
}

func judgeLayer(c *Case, o *observation, j *judgement) []verdict {
	lo := o.layer
	if lo == nil {
		return nil
	}
	var vs []verdict
	add := func(sig, format string, args ...any) {
		vs = append(vs, verdict{sig: "layer:" + sig, detail: fmt.Sprintf(format, args...)})
	}
	if lo.panicked != "" {
		add("builderbid-panicked", "BuilderBid after the auction panicked: %s", strings.SplitN(lo.panicked, "\n", 2)[0])
		return vs
	}
	if o.err != nil || o.res == nil {
		return vs
	}
	if lo.callsPre != 1 {
		add("auction-ran-strategy-n-times", "AuctionBlock called the bid strategy %d times", lo.callsPre)
	}
	if lo.callsPost != lo.callsPre {
		add("bid-refetched", "BuilderBid after a finished auction ran the bid strategy again (%d more calls)", lo.callsPost-lo.callsPre)
	}
	wp := o.res.WinningParticipation
	switch {
	case wp == nil:
		if lo.err != nil {
			add("no-winner-served-as-error", "auction had no winner; BuilderBid returned error %v instead of no bid", lo.err)
		} else if lo.bid != nil {
			v, _ := lo.bid.Value()
			add("no-winner-but-bid-served", "auction had no winner; BuilderBid served a bid of value %v", v)
		}
	default:
		switch {
		case lo.err != nil:
			add("winner-served-as-error", "auction had a winner; BuilderBid returned error %v", lo.err)
		case lo.bid == nil:
			add("winner-not-served", "auction had a winner (%s); BuilderBid served no bid", j.winner)
		case j.winner != nil && !bidContentEqual(lo.bid, j.winner.p):
			v, _ := lo.bid.Value()
			add("served-bid-is-not-the-winner", "auction winner is %s; BuilderBid served a different bid (value %v)", j.winner, v)
		}
	}
	return vs
}

// ---------------------------------------------------------------------------------------------
// histories on one block relay service

type histStepObs struct {
	res      *blockauctioneer.Results
	bid      *builderspec.VersionedSignedBuilderBid
	err      error
	panicked string
	calls    []stratCall // strategy runs that completed during the step
}

type histObs struct {
	steps   []histStepObs
	triples []tripleVal
	hung    bool
}

// runHistory executes the steps one after the other, as vouch (AuctionBlock) and
// a beacon node (BuilderBid) would.
func (l *layerWorld) runHistory(ctx context.Context, c *Case, triples []tripleVal, release func()) *histObs {
	h := &histObs{triples: triples}
	for _, st := range c.History {
		tv := triples[st.T]
		before := len(l.counting.completed())
		var so histStepObs
		ch := make(chan struct{})
		go func() {
			defer close(ch)
			defer func() {
				if r := recover(); r != nil {
					so.panicked = fmt.Sprint(r)
				}
			}()
			if st.Op == "auction" {
				so.res, so.err = l.svc.AuctionBlock(ctx, tv.slot, tv.parent, tv.pubkey)
			} else {
				so.bid, so.err = l.svc.BuilderBid(ctx, tv.slot, tv.parent, tv.pubkey)
			}
		}()
		select {
		case <-ch:
		case <-time.After(6 * time.Second):
			h.hung = true
			release()
			select {
			case <-ch:
			case <-time.After(5 * time.Second):
			}
			return h
		}
		so.calls = l.counting.completed()[before:]
		h.steps = append(h.steps, so)
	}
	return h
}

func winnerOf(res *blockauctioneer.Results) *builderspec.VersionedSignedBuilderBid {
	if res == nil || res.WinningParticipation == nil {
		return nil
	}
	return res.WinningParticipation.Bid
}

func sameBid(a, b *builderspec.VersionedSignedBuilderBid) bool {
	if a == b {
		return true
	}
	if a == nil || b == nil {
		return false
	}
	ra, err1 := a.MessageHashTreeRoot()
	rb, err2 := b.MessageHashTreeRoot()
	sa, err3 := a.Signature()
	sb, err4 := b.Signature()
	return err1 == nil && err2 == nil && err3 == nil && err4 == nil && ra == rb && sa == sb
}

func describeBid(b *builderspec.VersionedSignedBuilderBid) string {
	if b == nil {
		return "no bid"
	}
	v, _ := b.Value()
	ph, _ := b.ParentHash()
	bh, _ := b.BlockHash()
	return fmt.Sprintf("bid(value %v, parent %#x.., block %#x..)", v, ph[:4], bh[:4])
}

// judgeHistory: the bid served to a beacon node for (slot, parent, pubkey) is exactly the
// winner of the auction that was run for that slot, parent and pubkey, nothing if that
// auction had no winner, and never a bid built on another parent or for another slot.
func judgeHistory(c *Case, h *histObs) (vs []verdict, labels map[string]bool, nontrivial bool) {
	labels = map[string]bool{}
	add := func(sig, format string, args ...any) {
		vs = append(vs, verdict{sig: "layer:" + sig, detail: fmt.Sprintf(format, args...)})
	}
	latest := map[int]*stratCall{} // triple -> latest strategy run for it
	tripleOfCall := func(sc *stratCall) int {
		for k, tv := range h.triples {
			if tv.slot == sc.slot && tv.parent == sc.parent && tv.pubkey == sc.pubkey {
				return k
			}
		}
		return -1
	}
	for i := range h.steps {
		so := &h.steps[i]
		st := c.History[i]
		tv := h.triples[st.T]
		where := fmt.Sprintf("step %d %s(slot%+d, parent %d, proposer %d)", i, st.Op, c.Triples[st.T].SlotDelta, c.Triples[st.T].Parent, c.Triples[st.T].Key)
		if so.panicked != "" {
			add("call-panicked", "%s panicked: %s", where, strings.SplitN(so.panicked, "\n", 2)[0])
			return
		}
		foreign := false
		for k := range so.calls {
			if tripleOfCall(&so.calls[k]) != st.T {
				foreign = true
			}
		}
		if foreign {
			add("strategy-run-for-another-triple", "%s ran the bid strategy for a slot, parent or proposer other than the requested one", where)
			return
		}
		prev := latest[st.T]
		if len(so.calls) > 0 {
			latest[st.T] = &so.calls[len(so.calls)-1]
		}
		switch st.Op {
		case "auction":
			if so.err != nil {
				add("auction-returned-error", "%s returned error %v", where, so.err)
				continue
			}
			if len(so.calls) != 1 {
				add("auction-ran-strategy-n-times", "%s ran the bid strategy %d times", where, len(so.calls))
				continue
			}
			if !sameBid(winnerOf(so.res), winnerOf(so.calls[0].res)) {
				add("auction-result-is-not-the-strategy-result", "%s returned %s, the strategy chose %s", where, describeBid(winnerOf(so.res)), describeBid(winnerOf(so.calls[0].res)))
			}
			if winnerOf(so.res) != nil {
				labels["history:auction-with-winner"] = true
			} else {
				labels["history:auction-without-winner"] = true
			}
		case "bid":
			if so.bid != nil {
				if ph, err := so.bid.ParentHash(); err != nil || ph != tv.parent {
					add("served-bid-built-on-another-parent", "%s was served %s", where, describeBid(so.bid))
					continue
				}
				if ts, err := so.bid.Timestamp(); err != nil || ts != tv.slotTs {
					add("served-bid-of-another-slot", "%s was served %s with timestamp %d, the slot starts at %d", where, describeBid(so.bid), ts, tv.slotTs)
					continue
				}
			}
			if prev != nil && len(so.calls) > 0 {
				add("bid-refetched", "%s ran the bid strategy again although an auction for this slot, parent and proposer had finished", where)
				continue
			}
			cur := latest[st.T]
			if cur == nil {
				// never auctioned and no immediate auction happened: nothing to compare with
				if so.bid != nil {
					add("bid-served-without-auction", "%s was served %s although no auction was ever run for this slot, parent and proposer", where, describeBid(so.bid))
				}
				labels["history:bid-for-unauctioned-triple-without-fetch"] = true
				continue
			}
			if prev == nil {
				labels["history:immediate-auction"] = true
			} else {
				labels["history:bid-from-cache"] = true
			}
			want := winnerOf(cur.res)
			switch {
			case so.err != nil && cur.err == nil:
				add("bid-served-as-error", "%s returned error %v; the auction for it chose %s", where, so.err, describeBid(want))
			case want == nil && so.bid != nil:
				add("no-winner-but-bid-served", "%s: the auction had no winner, the beacon node was served %s", where, describeBid(so.bid))
			case want != nil && so.bid == nil && so.err == nil:
				add("winner-not-served", "%s: the auction chose %s, the beacon node was served nothing", where, describeBid(want))
			case want != nil && so.bid != nil && !sameBid(want, so.bid):
				add("served-bid-is-not-the-winner", "%s: the auction chose %s, the beacon node was served %s", where, describeBid(want), describeBid(so.bid))
			}
			// non-trivial: another triple with the same slot and proposer but another parent has been auctioned too
			for k, sc := range latest {
				if k != st.T && sc.slot == tv.slot && sc.pubkey == tv.pubkey && sc.parent != tv.parent && (winnerOf(sc.res) != nil || want != nil) {
					nontrivial = true
				}
			}
		}
	}
	return vs, labels, nontrivial
}
