// Package c06 decides property C06: every signature returned by the standard
// signer verifies under the requested account's public key against the signing
// root the consensus / builder specifications define for that duty (domain type
// of the duty, fork domain of the duty's epoch), and in batch requests the i-th
// signature belongs to the i-th account and message.
//
// Subject: the real services/signer/standard with all ten signing entry points.
// Oracle: reference merkleisation (refssz_test.go, crypto/sha256 only) of the
// intended message, reference compute_domain over the generated fork schedule,
// and real BLS verification against the account's public key.
package c06

import (
	"context"
	"crypto/sha256"
	"encoding/binary"
	"encoding/hex"
	"errors"
	"fmt"
	"runtime/debug"
	"sort"
	"strings"
	"sync"
	"testing"
	"time"

	builderapi "github.com/attestantio/go-builder-client/api"
	builderapiv1 "github.com/attestantio/go-builder-client/api/v1"
	builderspec "github.com/attestantio/go-builder-client/spec"
	"github.com/attestantio/go-eth2-client/api"
	"github.com/attestantio/go-eth2-client/spec/altair"
	"github.com/attestantio/go-eth2-client/spec/bellatrix"
	"github.com/attestantio/go-eth2-client/spec/phase0"
	standardsigner "github.com/attestantio/vouch/services/signer/standard"
	"github.com/prysmaticlabs/go-bitfield"
	"github.com/rs/zerolog"
	e2types "github.com/wealdtech/go-eth2-types/v2"
	e2wtypes "github.com/wealdtech/go-eth2-wallet-types/v2"
	"pgregory.net/rapid"

	"verifharness/internal/ev"
)

// ---------------------------------------------------------------------------
// Case
// ---------------------------------------------------------------------------

// Fork is one entry of the fork schedule.
type Fork struct {
	Epoch   uint64 `json:"epoch"`
	Version string `json:"version"` // 4 bytes hex
}

// Op is one signing request.
type Op struct {
	// Kind: attestation | attestations | proposal | randao | slot-selections |
	// sync-roots | sync-selections | aggregate-and-proof | contributions | registration.
	Kind string `json:"kind"`
	// Slot of the duty (all kinds but sync-roots and registration).
	Slot uint64 `json:"slot,omitempty"`
	// Epoch of the duty (sync-roots, which is given an epoch).
	Epoch uint64 `json:"epoch,omitempty"`
	// Accounts are indices into Case.Accounts, in request order (one for single requests).
	Accounts []int `json:"accounts"`
	// Indices: committee index per account (attestation(s)), subcommittee index
	// per account (sync-selections, contributions).
	Indices []uint64 `json:"indices,omitempty"`
	// Aggregators: aggregator index per item (contributions, aggregate-and-proof: one).
	Aggregators []uint64 `json:"aggregators,omitempty"`
	// Seed determines all roots, bit fields and inner signatures of the message.
	Seed          uint64 `json:"seed"`
	SourceEpoch   uint64 `json:"source_epoch,omitempty"`
	TargetEpoch   uint64 `json:"target_epoch,omitempty"`
	ProposerIndex uint64 `json:"proposer_index,omitempty"`
	GasLimit      uint64 `json:"gas_limit,omitempty"`
	Timestamp     uint64 `json:"timestamp,omitempty"`
	// Bits is the length of the aggregation bit list (aggregate-and-proof).
	Bits int `json:"bits,omitempty"`
	// Perm, if set, repeats a batch request with its items in this order
	// (item j of the repeat is item Perm[j] of the request).
	Perm []int `json:"perm,omitempty"`
	// FailCall k > 0: the k-th request this signing request makes to the beacon
	// node (Domain / GenesisDomain) fails.
	FailCall int `json:"fail_call,omitempty"`
	// With: runs concurrently with the previous op (consecutive ops chain into a
	// group); the node answers the first request of each only when all have asked.
	With bool `json:"with,omitempty"`
}

// Case is a chain, a set of accounts and a list of signing requests.
type Case struct {
	SlotsPerEpoch uint64 `json:"slots_per_epoch"`
	// Forks is sorted by epoch; the first entry is at epoch 0 (several may be).
	Forks   []Fork `json:"forks"`
	GVRSeed uint64 `json:"gvr_seed"`
	// DomainTypes: spec name -> 4 bytes hex.
	DomainTypes map[string]string `json:"domain_types"`
	// SpecMissing / SpecWrongType: spec keys the node does not deliver / delivers
	// as a string.
	SpecMissing   []string `json:"spec_missing,omitempty"`
	SpecWrongType []string `json:"spec_wrong_type,omitempty"`
	Accounts      []Acct   `json:"accounts"`
	Ops           []Op     `json:"ops"`
}

var domainNames = []string{
	"DOMAIN_BEACON_PROPOSER", "DOMAIN_BEACON_ATTESTER", "DOMAIN_RANDAO", "DOMAIN_SELECTION_PROOF",
	"DOMAIN_AGGREGATE_AND_PROOF", "DOMAIN_SYNC_COMMITTEE", "DOMAIN_SYNC_COMMITTEE_SELECTION_PROOF",
	"DOMAIN_CONTRIBUTION_AND_PROOF", "DOMAIN_BLOB_SIDECAR", "DOMAIN_DEPOSIT", "DOMAIN_VOLUNTARY_EXIT",
}

// specConstants: the domain types as the consensus specification (and, for the
// builder domain, the builder specification) defines them.  They are the
// reference where the node's spec does not deliver a value.
var specConstants = map[string]string{
	"DOMAIN_BEACON_PROPOSER":                "00000000",
	"DOMAIN_BEACON_ATTESTER":                "01000000",
	"DOMAIN_RANDAO":                         "02000000",
	"DOMAIN_DEPOSIT":                        "03000000",
	"DOMAIN_VOLUNTARY_EXIT":                 "04000000",
	"DOMAIN_SELECTION_PROOF":                "05000000",
	"DOMAIN_AGGREGATE_AND_PROOF":            "06000000",
	"DOMAIN_SYNC_COMMITTEE":                 "07000000",
	"DOMAIN_SYNC_COMMITTEE_SELECTION_PROOF": "08000000",
	"DOMAIN_CONTRIBUTION_AND_PROOF":         "09000000",
	"DOMAIN_BLOB_SIDECAR":                   "0b000000",
	"DOMAIN_APPLICATION_BUILDER":            "00000001",
}

// builderDomainType is a constant of the builder specification (not of the chain).
const builderDomainType = "00000001"

var opDomain = map[string]string{
	"attestation":         "DOMAIN_BEACON_ATTESTER",
	"attestations":        "DOMAIN_BEACON_ATTESTER",
	"proposal":            "DOMAIN_BEACON_PROPOSER",
	"randao":              "DOMAIN_RANDAO",
	"slot-selections":     "DOMAIN_SELECTION_PROOF",
	"sync-roots":          "DOMAIN_SYNC_COMMITTEE",
	"sync-selections":     "DOMAIN_SYNC_COMMITTEE_SELECTION_PROOF",
	"aggregate-and-proof": "DOMAIN_AGGREGATE_AND_PROOF",
	"contributions":       "DOMAIN_CONTRIBUTION_AND_PROOF",
	"registration":        "DOMAIN_APPLICATION_BUILDER",
}

var batchOps = map[string]bool{"attestations": true, "slot-selections": true, "sync-roots": true, "sync-selections": true, "contributions": true}

// expand derives n bytes from (seed, tag).
func expand(seed uint64, tag string, n int) []byte {
	var out []byte
	for ctr := uint32(0); len(out) < n; ctr++ {
		h := sha256.New()
		var b [12]byte
		binary.LittleEndian.PutUint64(b[:8], seed)
		binary.LittleEndian.PutUint32(b[8:], ctr)
		h.Write(b[:])
		h.Write([]byte(tag))
		out = h.Sum(out)
	}
	return out[:n]
}

func root(seed uint64, tag string) chunk {
	var c chunk
	copy(c[:], expand(seed, tag, 32))
	return c
}

func sig96(seed uint64, tag string) [96]byte {
	var s [96]byte
	copy(s[:], expand(seed, tag, 96))
	return s
}

func hex4(s string) ([4]byte, error) {
	var v [4]byte
	b, err := hex.DecodeString(s)
	if err != nil || len(b) != 4 {
		return v, fmt.Errorf("bad 4-byte hex %q", s)
	}
	copy(v[:], b)
	return v, nil
}

// ---------------------------------------------------------------------------
// Generator
// ---------------------------------------------------------------------------

func genCase(t *rapid.T) Case {
	c := Case{
		SlotsPerEpoch: rapid.SampledFrom([]uint64{2, 4, 8, 32, 32}).Draw(t, "spe"),
		GVRSeed:       rapid.Uint64Range(0, 1<<20).Draw(t, "gvr"),
		DomainTypes:   map[string]string{"DOMAIN_APPLICATION_BUILDER": builderDomainType},
	}
	// distinct domain types
	used := map[string]bool{builderDomainType: true}
	for _, n := range domainNames {
		for {
			v := rapid.Uint32().Draw(t, "domainType")
			if rapid.Bool().Draw(t, "specLike") {
				v = (v % 16) << 24 // 0x0N000000 as in the specification (big-endian print of little-endian bytes)
			}
			var b [4]byte
			binary.BigEndian.PutUint32(b[:], v)
			h := hex.EncodeToString(b[:])
			if !used[h] {
				used[h] = true
				c.DomainTypes[n] = h
				break
			}
		}
	}
	// fork schedule
	nForks := rapid.IntRange(1, 5).Draw(t, "nForks")
	usedV := map[string]bool{}
	epoch := uint64(0)
	for i := 0; i < nForks; i++ {
		if i > 0 {
			epoch += rapid.SampledFrom([]uint64{0, 1, 1, 2, 3, 10, 1000, 74240}).Draw(t, "forkGap")
		}
		for {
			var b [4]byte
			binary.BigEndian.PutUint32(b[:], rapid.Uint32().Draw(t, "forkVersion"))
			h := hex.EncodeToString(b[:])
			if !usedV[h] {
				usedV[h] = true
				c.Forks = append(c.Forks, Fork{Epoch: epoch, Version: h})
				break
			}
		}
	}
	freeEpoch := func() uint64 {
		switch rapid.IntRange(0, 9).Draw(t, "epochKind") {
		case 0:
			return rapid.Uint64Range(0, 400000).Draw(t, "anyEpoch")
		case 1:
			return rapid.Uint64Range(0, 4).Draw(t, "earlyEpoch")
		default:
			f := c.Forks[rapid.IntRange(0, len(c.Forks)-1).Draw(t, "nearFork")].Epoch
			d := rapid.SampledFrom([]int{-2, -1, -1, 0, 0, 1, 1, 2}).Draw(t, "delta")
			if d < 0 && uint64(-d) > f {
				return 0
			}
			return uint64(int64(f) + int64(d))
		}
	}
	freeSlot := func() uint64 {
		return freeEpoch()*c.SlotsPerEpoch + rapid.Uint64Range(0, c.SlotsPerEpoch-1).Draw(t, "slotInEpoch")
	}
	dutySlot, dutyEpoch := freeSlot, freeEpoch

	// accounts: one account manager per vouch instance, so either local wallet
	// accounts (plain / protecting) or Dirk-like multi signers; ordinary and
	// distributed in any mixture and order.
	family := rapid.SampledFrom([]string{"local", "local", "dirk", "dirk", "local-plain"}).Draw(t, "family")
	nAcc := rapid.IntRange(1, 12).Draw(t, "nAccounts")
	distPattern := rapid.SampledFrom([]string{"random", "random", "random", "alternating", "all", "none"}).Draw(t, "distPattern")
	keyPerm := rapid.Permutation([]int{0, 1, 2, 3, 4, 5, 6, 7, 8, 9, 10, 11, 12, 13, 14, 15}).Draw(t, "keys")
	for i := 0; i < nAcc; i++ {
		a := Acct{Key: keyPerm[i]}
		switch family {
		case "local":
			a.Kind = rapid.SampledFrom([]string{"plain", "protecting"}).Draw(t, "kind")
		case "local-plain":
			a.Kind = "plain"
		default:
			a.Kind = "multi"
			a.Deny = rapid.IntRange(0, 9).Draw(t, "deny") == 0
		}
		switch distPattern {
		case "random":
			a.Dist = rapid.Bool().Draw(t, "dist")
		case "alternating":
			a.Dist = i%2 == 0
		case "all":
			a.Dist = true
		}
		c.Accounts = append(c.Accounts, a)
	}

	kinds := []string{"attestation", "attestations", "attestations", "proposal", "randao", "slot-selections", "slot-selections",
		"sync-roots", "sync-roots", "sync-selections", "sync-selections", "aggregate-and-proof", "contributions", "contributions", "registration"}
	// Spec: occasionally the node does not deliver a domain type (mostly one of
	// the optional ones) or delivers it with another Go type.
	optional := []string{"DOMAIN_APPLICATION_BUILDER", "DOMAIN_APPLICATION_BUILDER", "DOMAIN_SYNC_COMMITTEE", "DOMAIN_SYNC_COMMITTEE_SELECTION_PROOF",
		"DOMAIN_CONTRIBUTION_AND_PROOF", "DOMAIN_BLOB_SIDECAR"}
	mandatory := []string{"DOMAIN_BEACON_PROPOSER", "DOMAIN_BEACON_ATTESTER", "DOMAIN_RANDAO", "DOMAIN_SELECTION_PROOF", "DOMAIN_AGGREGATE_AND_PROOF"}
	switch k := rapid.IntRange(0, 39).Draw(t, "specDefect"); {
	case k < 6:
		c.SpecMissing = []string{rapid.SampledFrom(optional).Draw(t, "missing")}
		if k == 0 {
			if m := rapid.SampledFrom(optional).Draw(t, "missing2"); m != c.SpecMissing[0] {
				c.SpecMissing = append(c.SpecMissing, m)
			}
		}
	case k == 6:
		c.SpecWrongType = []string{rapid.SampledFrom(optional).Draw(t, "wrongType")}
	case k == 7:
		c.SpecMissing = []string{rapid.SampledFrom(mandatory).Draw(t, "missingMandatory")}
	}

	nOps := rapid.IntRange(1, 5).Draw(t, "nOps")
	var lastSlot uint64
	haveSlot := false
	for i := 0; i < nOps; i++ {
		op := Op{Seed: rapid.Uint64Range(0, 1<<24).Draw(t, "seed")}
		if i > 0 && rapid.IntRange(0, 9).Draw(t, "with") < 3 {
			// concurrently with the previous request, as the duties of one slot are
			op.With = true
			c.Ops[i-1].Perm = nil
		}
		switch {
		case op.With:
			// mostly another duty
			op.Kind = rapid.SampledFrom(kinds).Draw(t, "op")
			if op.Kind == c.Ops[i-1].Kind {
				op.Kind = rapid.SampledFrom(kinds).Draw(t, "op2")
			}
		case i > 0 && rapid.IntRange(0, 9).Draw(t, "again") < 3:
			// the same kind of request as an earlier one, on the same signer
			op.Kind = c.Ops[rapid.IntRange(0, i-1).Draw(t, "earlier")].Kind
		default:
			op.Kind = rapid.SampledFrom(kinds).Draw(t, "op")
		}
		if rapid.IntRange(0, 9).Draw(t, "nodeFails") < 2 {
			op.FailCall = rapid.SampledFrom([]int{1, 1, 1, 2, 3}).Draw(t, "failCall")
		}
		if op.With && haveSlot && rapid.IntRange(0, 9).Draw(t, "sameSlot") < 9 {
			// duties of the same slot (hence epoch)
			s := lastSlot
			if rapid.IntRange(0, 3).Draw(t, "otherSlotOfEpoch") == 0 {
				s = s/c.SlotsPerEpoch*c.SlotsPerEpoch + rapid.Uint64Range(0, c.SlotsPerEpoch-1).Draw(t, "slotInEpoch")
			}
			fixed := s
			dutySlot = func() uint64 { return fixed }
			dutyEpoch = func() uint64 { return fixed / c.SlotsPerEpoch }
		} else {
			dutySlot, dutyEpoch = freeSlot, freeEpoch
		}
		// accounts of the request
		if batchOps[op.Kind] {
			n := rapid.IntRange(1, nAcc).Draw(t, "batch")
			if rapid.IntRange(0, 2).Draw(t, "wholeSet") == 0 {
				n = nAcc
			}
			order := rapid.Permutation(seq(nAcc)).Draw(t, "order")
			op.Accounts = order[:n]
			if (op.Kind == "sync-selections" || op.Kind == "contributions") && rapid.Bool().Draw(t, "repeatAccounts") {
				// a validator can be in several subcommittees
				extra := rapid.IntRange(1, 3).Draw(t, "extra")
				for j := 0; j < extra && len(op.Accounts) < 12; j++ {
					op.Accounts = append(op.Accounts, op.Accounts[rapid.IntRange(0, len(op.Accounts)-1).Draw(t, "again")])
				}
			}
		} else {
			op.Accounts = []int{rapid.IntRange(0, nAcc-1).Draw(t, "account")}
		}
		n := len(op.Accounts)
		switch op.Kind {
		case "attestation", "attestations":
			op.Slot = dutySlot()
			op.TargetEpoch = op.Slot / c.SlotsPerEpoch
			op.SourceEpoch = op.TargetEpoch - min(op.TargetEpoch, rapid.Uint64Range(0, 3).Draw(t, "justifiedBack"))
			sameCommittee := rapid.IntRange(0, 4).Draw(t, "sameCommittee") == 0
			for j := 0; j < n; j++ {
				ci := rapid.Uint64Range(0, 63).Draw(t, "committeeIndex")
				if sameCommittee && j > 0 {
					ci = op.Indices[0]
				}
				op.Indices = append(op.Indices, ci)
			}
		case "proposal":
			op.Slot = dutySlot()
			op.ProposerIndex = rapid.Uint64Range(0, 2000000).Draw(t, "proposer")
		case "randao", "slot-selections":
			op.Slot = dutySlot()
		case "sync-roots":
			op.Epoch = dutyEpoch()
		case "sync-selections":
			op.Slot = dutySlot()
			for j := 0; j < n; j++ {
				op.Indices = append(op.Indices, rapid.Uint64Range(0, 3).Draw(t, "subcommittee"))
			}
		case "aggregate-and-proof":
			op.Slot = dutySlot()
			op.TargetEpoch = op.Slot / c.SlotsPerEpoch
			op.SourceEpoch = op.TargetEpoch - min(op.TargetEpoch, 1)
			op.Indices = []uint64{rapid.Uint64Range(0, 63).Draw(t, "committeeIndex")}
			op.Aggregators = []uint64{rapid.Uint64Range(0, 2000000).Draw(t, "aggregator")}
			op.Bits = rapid.SampledFrom([]int{0, 1, 7, 8, 9, 63, 128, 255, 256, 257, 511, 1000, 2047, 2048}).Draw(t, "bits")
		case "contributions":
			op.Slot = dutySlot()
			for j := 0; j < n; j++ {
				op.Indices = append(op.Indices, rapid.Uint64Range(0, 3).Draw(t, "subcommittee"))
				op.Aggregators = append(op.Aggregators, rapid.Uint64Range(0, 2000000).Draw(t, "aggregator"))
			}
		case "registration":
			op.GasLimit = rapid.SampledFrom([]uint64{0, 1, 30000000, 36000000, 1 << 40}).Draw(t, "gasLimit")
			op.Timestamp = rapid.Uint64Range(0, 1<<33).Draw(t, "timestamp")
		}
		switch op.Kind {
		case "registration":
		case "sync-roots":
			lastSlot, haveSlot = op.Epoch*c.SlotsPerEpoch, true
		default:
			lastSlot, haveSlot = op.Slot, true
		}
		if !op.With && batchOps[op.Kind] && n > 1 && rapid.IntRange(0, 3).Draw(t, "permute") == 0 {
			op.Perm = rapid.Permutation(seq(n)).Draw(t, "perm")
		}
		c.Ops = append(c.Ops, op)
	}
	return c
}

func seq(n int) []int {
	s := make([]int, n)
	for i := range s {
		s[i] = i
	}
	return s
}

// ---------------------------------------------------------------------------
// Doubles: spec provider and domain provider (what go-eth2-client delivers)
// ---------------------------------------------------------------------------

type chainDouble struct {
	spe       uint64
	forks     []fork
	gvr       chunk
	types     map[string][4]byte
	missing   map[string]bool // not in the spec the node delivers
	wrongType map[string]bool // delivered as a string instead of a phase0.DomainType

	mu      sync.Mutex
	calls   map[int]*callState // per invocation of a signing request (identified through the context)
	barrier *barrier           // rendezvous of the requests of a concurrent group
}

// callState is what the double knows about one invocation of a signing request.
type callState struct {
	failAt   int // the failAt-th provider call of the invocation fails (0 = none)
	n        int
	failed   bool // a failure was really injected
	arrived  bool
	requests []string
}

// barrier holds the first provider call of every request of a concurrent
// group until all of them have arrived (or finished), for a bounded time.
type barrier struct {
	need    int
	arrived int
	open    chan struct{}
}

const barrierWait = 400 * time.Millisecond

type invocationKey struct{}

func withInvocation(ctx context.Context, id int) context.Context {
	return context.WithValue(ctx, invocationKey{}, id)
}

// begin registers an invocation before it is started.
func (d *chainDouble) begin(id, failAt int) {
	d.mu.Lock()
	d.calls[id] = &callState{failAt: failAt}
	d.mu.Unlock()
}

// group arms the rendezvous for n concurrent invocations.
func (d *chainDouble) group(n int) {
	d.mu.Lock()
	d.barrier = &barrier{need: n, open: make(chan struct{})}
	d.mu.Unlock()
}

func (d *chainDouble) ungroup() {
	d.mu.Lock()
	d.barrier = nil
	d.mu.Unlock()
}

// arriveLocked counts an invocation at the barrier; returns the channel to wait on.
func (d *chainDouble) arriveLocked(st *callState) chan struct{} {
	if d.barrier == nil || st.arrived {
		return nil
	}
	st.arrived = true
	b := d.barrier
	b.arrived++
	if b.arrived == b.need {
		close(b.open)
	}
	return b.open
}

// finished: an invocation that returned without asking the node counts as arrived.
func (d *chainDouble) finished(id int) {
	d.mu.Lock()
	if st := d.calls[id]; st != nil {
		d.arriveLocked(st)
	}
	d.mu.Unlock()
}

func (d *chainDouble) state(id int) callState {
	d.mu.Lock()
	defer d.mu.Unlock()
	if st := d.calls[id]; st != nil {
		return *st
	}
	return callState{}
}

// enter is the common part of every provider call: log, rendezvous, scripted failure.
func (d *chainDouble) enter(ctx context.Context, what string) error {
	id, ok := ctx.Value(invocationKey{}).(int)
	if !ok {
		return nil
	}
	d.mu.Lock()
	st := d.calls[id]
	if st == nil {
		d.mu.Unlock()
		return nil
	}
	st.requests = append(st.requests, what)
	st.n++
	fail := st.failAt > 0 && st.n == st.failAt
	if fail {
		st.failed = true
	}
	wait := d.arriveLocked(st)
	d.mu.Unlock()
	if wait != nil {
		select {
		case <-wait:
		case <-time.After(barrierWait):
		}
	}
	if fail {
		return errors.New("scripted beacon node failure")
	}
	return nil
}

type fork struct {
	epoch   uint64
	version [4]byte
}

func newChain(c *Case) (*chainDouble, error) {
	d := &chainDouble{spe: c.SlotsPerEpoch, gvr: root(c.GVRSeed, "genesis-validators-root"), types: map[string][4]byte{},
		missing: map[string]bool{}, wrongType: map[string]bool{}, calls: map[int]*callState{}}
	if c.SlotsPerEpoch == 0 {
		return nil, errors.New("slots per epoch is 0")
	}
	if len(c.Forks) == 0 || c.Forks[0].Epoch != 0 {
		return nil, errors.New("fork schedule must start at epoch 0")
	}
	for i, f := range c.Forks {
		v, err := hex4(f.Version)
		if err != nil {
			return nil, err
		}
		if i > 0 && f.Epoch < c.Forks[i-1].Epoch {
			return nil, errors.New("fork schedule not sorted")
		}
		d.forks = append(d.forks, fork{f.Epoch, v})
	}
	seen := map[[4]byte]string{}
	for n, h := range c.DomainTypes {
		v, err := hex4(h)
		if err != nil {
			return nil, err
		}
		if o, dup := seen[v]; dup {
			return nil, fmt.Errorf("domain types %s and %s are equal", n, o)
		}
		seen[v] = n
		d.types[n] = v
	}
	if c.DomainTypes["DOMAIN_APPLICATION_BUILDER"] != builderDomainType {
		return nil, errors.New("DOMAIN_APPLICATION_BUILDER is a constant of the builder specification")
	}
	for _, op := range c.Ops {
		if _, ok := d.types[opDomain[op.Kind]]; !ok {
			return nil, fmt.Errorf("no domain type for %q", op.Kind)
		}
	}
	for _, n := range c.SpecMissing {
		if _, ok := specConstants[n]; !ok {
			return nil, fmt.Errorf("cannot drop %q from the spec", n)
		}
		d.missing[n] = true
	}
	for _, n := range c.SpecWrongType {
		if _, ok := specConstants[n]; !ok {
			return nil, fmt.Errorf("cannot mistype %q in the spec", n)
		}
		d.wrongType[n] = true
	}
	return d, nil
}

// absent: the signer cannot learn this domain type from the node's spec.
func (d *chainDouble) absent(name string) bool { return d.missing[name] || d.wrongType[name] }

// refType: the domain type the specification prescribes for a duty: the value
// of the chain's spec, or, where the node does not deliver it, the constant of
// the consensus / builder specification.
func (d *chainDouble) refType(name string) [4]byte {
	if d.absent(name) {
		v, _ := hex4(specConstants[name])
		return v
	}
	return d.types[name]
}

// versionAt: the fork version in force at an epoch (the last scheduled fork
// whose epoch is not after it).
func (d *chainDouble) versionAt(epoch uint64) [4]byte {
	v := d.forks[0].version
	for _, f := range d.forks {
		if f.epoch <= epoch {
			v = f.version
		}
	}
	return v
}

// domain: as the beacon node client computes it (the builder domain is not
// bound to a chain: zero genesis validators root).
func (d *chainDouble) domain(dt [4]byte, version [4]byte) chunk {
	if hex.EncodeToString(dt[:]) == builderDomainType {
		return computeDomain(dt, version, chunk{})
	}
	return computeDomain(dt, version, d.gvr)
}

func (d *chainDouble) Domain(ctx context.Context, domainType phase0.DomainType, epoch phase0.Epoch) (phase0.Domain, error) {
	if err := d.enter(ctx, fmt.Sprintf("Domain(%x, epoch %d)", domainType[:], epoch)); err != nil {
		return phase0.Domain{}, err
	}
	return phase0.Domain(d.domain([4]byte(domainType), d.versionAt(uint64(epoch)))), nil
}

func (d *chainDouble) GenesisDomain(ctx context.Context, domainType phase0.DomainType) (phase0.Domain, error) {
	if err := d.enter(ctx, fmt.Sprintf("GenesisDomain(%x)", domainType[:])); err != nil {
		return phase0.Domain{}, err
	}
	return phase0.Domain(d.domain([4]byte(domainType), d.forks[0].version)), nil
}

func (d *chainDouble) Spec(context.Context, *api.SpecOpts) (*api.Response[map[string]any], error) {
	m := map[string]any{
		"SLOTS_PER_EPOCH":     d.spe,
		"SECONDS_PER_SLOT":    12 * time.Second,
		"SYNC_COMMITTEE_SIZE": uint64(512),
	}
	for n, v := range d.types {
		switch {
		case d.missing[n]:
		case d.wrongType[n]:
			m[n] = fmt.Sprintf("%#x", v[:])
		default:
			m[n] = phase0.DomainType(v)
		}
	}
	return &api.Response[map[string]any]{Data: m, Metadata: map[string]any{}}, nil
}

// ---------------------------------------------------------------------------
// Oracle
// ---------------------------------------------------------------------------

// item is what position i of a request is about.
type item struct {
	acct    int   // index into Case.Accounts
	message chunk // spec hash-tree-root of the object to sign
}

type expectation struct {
	domainName string
	genesis    bool   // builder: genesis fork version, zero validators root
	epoch      uint64 // duty epoch
	items      []item
}

func aggregationBits(op *Op) []bool {
	raw := expand(op.Seed, "aggregation-bits", (op.Bits+7)/8)
	bits := make([]bool, op.Bits)
	for i := range bits {
		bits[i] = raw[i/8]&(1<<(uint(i)%8)) != 0
	}
	return bits
}

func bits16(seed uint64, tag string) [16]byte {
	var b [16]byte
	copy(b[:], expand(seed, tag, 16))
	return b
}

func feeRecipient(seed uint64) [20]byte {
	var b [20]byte
	copy(b[:], expand(seed, "fee-recipient", 20))
	return b
}

func regPubkey(seed uint64) [48]byte {
	var b [48]byte
	copy(b[:], expand(seed, "registration-pubkey", 48))
	return b
}

// expect computes, from the specification, what each position has to be a
// signature of.  order maps request positions to item numbers of the op.
func expect(c *Case, op *Op, order []int) (*expectation, error) {
	e := &expectation{domainName: opDomain[op.Kind]}
	n := len(op.Accounts)
	need := func(l int, what string) error {
		if l != n {
			return fmt.Errorf("%s: %d %s for %d accounts", op.Kind, l, what, n)
		}
		return nil
	}
	if n == 0 {
		return nil, errors.New("request without accounts")
	}
	if !batchOps[op.Kind] && n != 1 {
		return nil, fmt.Errorf("%s is a single-account request", op.Kind)
	}
	for _, a := range op.Accounts {
		if a < 0 || a >= len(c.Accounts) {
			return nil, fmt.Errorf("no account %d", a)
		}
	}
	e.epoch = op.Slot / c.SlotsPerEpoch
	msgs := make([]chunk, n)
	switch op.Kind {
	case "attestation", "attestations":
		if err := need(len(op.Indices), "committee indices"); err != nil {
			return nil, err
		}
		for i := range msgs {
			msgs[i] = attestationDataRoot(op.Slot, op.Indices[i], root(op.Seed, "beacon-block-root"),
				op.SourceEpoch, root(op.Seed, "source-root"), op.TargetEpoch, root(op.Seed, "target-root"))
		}
	case "proposal":
		msgs[0] = headerRoot(op.Slot, op.ProposerIndex, root(op.Seed, "parent-root"), root(op.Seed, "state-root"), root(op.Seed, "body-root"))
	case "randao":
		// epoch_signature = get_epoch_signature: signing root of the epoch (uint64)
		msgs[0] = u64(e.epoch)
	case "slot-selections":
		// get_slot_signature: signing root of the slot (uint64)
		for i := range msgs {
			msgs[i] = u64(op.Slot)
		}
	case "sync-roots":
		// get_sync_committee_message: signing root of the block root
		e.epoch = op.Epoch
		for i := range msgs {
			msgs[i] = root(op.Seed, "beacon-block-root")
		}
	case "sync-selections":
		if err := need(len(op.Indices), "subcommittee indices"); err != nil {
			return nil, err
		}
		for i := range msgs {
			msgs[i] = syncSelectionDataRoot(op.Slot, op.Indices[i])
		}
	case "aggregate-and-proof":
		if len(op.Indices) != 1 || len(op.Aggregators) != 1 || op.Bits < 0 || op.Bits > 2048 {
			return nil, errors.New("aggregate-and-proof: bad shape")
		}
		msgs[0] = aggregateAndProofMessage(op)
	case "contributions":
		if err := errors.Join(need(len(op.Indices), "subcommittee indices"), need(len(op.Aggregators), "aggregators")); err != nil {
			return nil, err
		}
		for i := range msgs {
			tag := fmt.Sprintf("-%d", i)
			contribution := contributionRoot(op.Slot, root(op.Seed, "beacon-block-root"), op.Indices[i],
				bits16(op.Seed, "contribution-bits"+tag), sig96(op.Seed, "contribution-signature"+tag))
			msgs[i] = contributionAndProofRoot(op.Aggregators[i], contribution, sig96(op.Seed, "selection-proof"+tag))
		}
	case "registration":
		e.genesis = true
		e.epoch = 0
		msgs[0] = registrationRoot(feeRecipient(op.Seed), op.GasLimit, op.Timestamp, regPubkey(op.Seed))
	default:
		return nil, fmt.Errorf("unknown op %q", op.Kind)
	}
	for _, k := range order {
		e.items = append(e.items, item{acct: op.Accounts[k], message: msgs[k]})
	}
	return e, nil
}

func aggregateAndProofMessage(op *Op) chunk {
	data := attestationDataRoot(op.Slot, op.Indices[0], root(op.Seed, "beacon-block-root"),
		op.SourceEpoch, root(op.Seed, "source-root"), op.TargetEpoch, root(op.Seed, "target-root"))
	att := attestationRoot(aggregationBits(op), data, sig96(op.Seed, "aggregate-signature"))
	return aggregateAndProofRoot(op.Aggregators[0], att, sig96(op.Seed, "selection-proof"))
}

// refDomain: the domain the specification prescribes.
func refDomain(d *chainDouble, e *expectation) chunk {
	dt := d.refType(e.domainName)
	if e.genesis {
		// builder-specs: compute_domain(DOMAIN_APPLICATION_BUILDER) with the
		// genesis fork version and a zero genesis validators root
		return computeDomain(dt, d.forks[0].version, chunk{})
	}
	return computeDomain(dt, d.versionAt(e.epoch), d.gvr)
}

func verifies(sig phase0.BLSSignature, msg chunk, pub e2types.PublicKey) bool {
	s, err := e2types.BLSSignatureFromBytes(sig[:])
	if err != nil {
		return false
	}
	return s.Verify(msg[:], pub)
}

// diagnose says what a non-verifying signature is a signature of, if anything
// nearby (only used for the detail text).
func diagnose(c *Case, d *chainDouble, e *expectation, i int, sig phase0.BLSSignature, pubs []e2types.PublicKey) string {
	own := pubs[e.items[i].acct]
	if verifies(sig, e.items[i].message, own) {
		return "it is a signature of the message root itself (no SigningData container)"
	}
	names := make([]string, 0, len(d.types))
	for n := range d.types {
		names = append(names, n)
	}
	sort.Strings(names)
	epochs := map[uint64]bool{e.epoch: true, e.epoch * c.SlotsPerEpoch: true}
	for _, f := range d.forks {
		epochs[f.epoch] = true
	}
	var es []uint64
	for ep := range epochs {
		es = append(es, ep)
	}
	sort.Slice(es, func(a, b int) bool { return es[a] < es[b] })
	for _, n := range names {
		for _, ep := range es {
			for _, gvr := range []chunk{d.gvr, {}} {
				dom := computeDomain(d.types[n], d.versionAt(ep), gvr)
				if verifies(sig, signingRoot(e.items[i].message, dom), own) {
					return fmt.Sprintf("it is a signature of the right message under domain type %s with the fork version of epoch %d (zero validators root: %v)", n, ep, gvr == chunk{})
				}
			}
		}
	}
	dom := refDomain(d, e)
	for j := range e.items {
		if verifies(sig, signingRoot(e.items[j].message, dom), pubs[e.items[j].acct]) {
			return fmt.Sprintf("it is the signature that belongs at position %d (account %d)", j, e.items[j].acct)
		}
		if verifies(sig, signingRoot(e.items[j].message, dom), own) {
			return fmt.Sprintf("it is a signature by the right account of the message of position %d", j)
		}
		if verifies(sig, signingRoot(e.items[i].message, dom), pubs[e.items[j].acct]) {
			return fmt.Sprintf("it is a signature of the right message by the account of position %d (account %d)", j, e.items[j].acct)
		}
	}
	if c.Accounts[e.items[i].acct].Dist {
		if verifies(sig, signingRoot(e.items[i].message, dom), compositeKeys[c.Accounts[e.items[i].acct].Key].PublicKey()) {
			return "it verifies under the composite key, not under the account's own (share) key"
		}
	}
	return "it is not a signature of a related root"
}

// ---------------------------------------------------------------------------
// Run
// ---------------------------------------------------------------------------

type result struct {
	sigs     []phase0.BLSSignature
	err      error
	panicked string
}

func topVouchFrame(stack string) string {
	lines := strings.Split(stack, "\n")
	for i, l := range lines {
		if strings.Contains(l, "github.com/attestantio/vouch/") && i+1 < len(lines) {
			fn := l[strings.LastIndex(l, "/")+1:]
			if p := strings.Index(fn, "("); p > 0 {
				fn = fn[:p]
			}
			return fn
		}
	}
	return "unknown"
}

// call performs the request described by op with its items in the given order.
func call(ctx context.Context, svc *standardsigner.Service, op *Op, accts []e2wtypes.Account, order []int) (res result) {
	defer func() {
		if r := recover(); r != nil {
			res.panicked = fmt.Sprintf("%v at %s", r, topVouchFrame(string(debug.Stack())))
		}
	}()
	batch := make([]e2wtypes.Account, len(order))
	for j, k := range order {
		batch[j] = accts[op.Accounts[k]]
	}
	pick := func(v []uint64) []uint64 {
		out := make([]uint64, len(order))
		for j, k := range order {
			out[j] = v[k]
		}
		return out
	}
	single := func(s phase0.BLSSignature, err error) result {
		if err != nil {
			return result{err: err}
		}
		return result{sigs: []phase0.BLSSignature{s}}
	}
	many := func(s []phase0.BLSSignature, err error) result { return result{sigs: s, err: err} }
	r := func(tag string) phase0.Root { return phase0.Root(root(op.Seed, tag)) }
	switch op.Kind {
	case "attestation":
		return single(svc.SignBeaconAttestation(ctx, batch[0], phase0.Slot(op.Slot), phase0.CommitteeIndex(op.Indices[0]), r("beacon-block-root"),
			phase0.Epoch(op.SourceEpoch), r("source-root"), phase0.Epoch(op.TargetEpoch), r("target-root")))
	case "attestations":
		idx := pick(op.Indices)
		cis := make([]phase0.CommitteeIndex, len(idx))
		for i := range idx {
			cis[i] = phase0.CommitteeIndex(idx[i])
		}
		return many(svc.SignBeaconAttestations(ctx, batch, phase0.Slot(op.Slot), cis, r("beacon-block-root"),
			phase0.Epoch(op.SourceEpoch), r("source-root"), phase0.Epoch(op.TargetEpoch), r("target-root")))
	case "proposal":
		return single(svc.SignBeaconBlockProposal(ctx, batch[0], phase0.Slot(op.Slot), phase0.ValidatorIndex(op.ProposerIndex),
			r("parent-root"), r("state-root"), r("body-root")))
	case "randao":
		return single(svc.SignRANDAOReveal(ctx, batch[0], phase0.Slot(op.Slot)))
	case "slot-selections":
		return many(svc.SignSlotSelections(ctx, batch, phase0.Slot(op.Slot)))
	case "sync-roots":
		return many(svc.SignSyncCommitteeRoots(ctx, batch, phase0.Epoch(op.Epoch), r("beacon-block-root")))
	case "sync-selections":
		return many(svc.SignSyncCommitteeSelections(ctx, batch, phase0.Slot(op.Slot), pick(op.Indices)))
	case "aggregate-and-proof":
		// the caller hands over the root of the AggregateAndProof it built
		return single(svc.SignAggregateAndProof(ctx, batch[0], phase0.Slot(op.Slot), phase0.Root(aggregateAndProofMessage(op))))
	case "contributions":
		caps := make([]*altair.ContributionAndProof, len(order))
		for j, k := range order {
			tag := fmt.Sprintf("-%d", k)
			b := bits16(op.Seed, "contribution-bits"+tag)
			caps[j] = &altair.ContributionAndProof{
				AggregatorIndex: phase0.ValidatorIndex(op.Aggregators[k]),
				Contribution: &altair.SyncCommitteeContribution{
					Slot:              phase0.Slot(op.Slot),
					BeaconBlockRoot:   r("beacon-block-root"),
					SubcommitteeIndex: op.Indices[k],
					AggregationBits:   bitfield.Bitvector128(b[:]),
					Signature:         phase0.BLSSignature(sig96(op.Seed, "contribution-signature"+tag)),
				},
				SelectionProof: phase0.BLSSignature(sig96(op.Seed, "selection-proof"+tag)),
			}
		}
		return many(svc.SignContributionAndProofs(ctx, batch, caps))
	case "registration":
		return single(svc.SignValidatorRegistration(ctx, batch[0], &builderapi.VersionedValidatorRegistration{
			Version: builderspec.BuilderVersionV1,
			V1: &builderapiv1.ValidatorRegistration{
				FeeRecipient: bellatrix.ExecutionAddress(feeRecipient(op.Seed)),
				GasLimit:     op.GasLimit,
				Timestamp:    time.Unix(int64(op.Timestamp), 0),
				Pubkey:       phase0.BLSPubKey(regPubkey(op.Seed)),
			},
		}))
	}
	return result{err: fmt.Errorf("harness: unknown op %q", op.Kind)}
}

// ---------------------------------------------------------------------------
// Check
// ---------------------------------------------------------------------------

type violation struct{ sig, detail string }

func acctClass(a Acct) string {
	if a.Dist {
		return a.Kind + "+dist"
	}
	return a.Kind
}

func check(t ev.TB, c *Case) {
	zerolog.SetGlobalLevel(zerolog.Disabled)
	ctx := context.Background()
	chain, err := newChain(c)
	if err != nil {
		t.Fatalf("harness problem: %v", err)
	}
	var calls []string
	accts := make([]e2wtypes.Account, len(c.Accounts))
	pubs := make([]e2types.PublicKey, len(c.Accounts))
	usedKeys := map[int]bool{}
	for i, a := range c.Accounts {
		if usedKeys[a.Key] {
			t.Fatalf("harness problem: key %d used by two accounts", a.Key)
		}
		usedKeys[a.Key] = true
		acc, err := buildAccount(i, a, &calls)
		if err != nil {
			t.Fatalf("harness problem: %v", err)
		}
		accts[i] = acc
		pubs[i] = keys[a.Key].PublicKey() // the account's own key (the share key of a distributed account)
	}
	svc, err := standardsigner.New(ctx,
		standardsigner.WithLogLevel(zerolog.Disabled),
		standardsigner.WithSpecProvider(chain),
		standardsigner.WithDomainProvider(chain),
	)
	labels := map[string]bool{}
	finish := func(nontrivial bool, viols []violation) {
		var ls []string
		for l := range labels {
			ls = append(ls, l)
		}
		sort.Strings(ls)
		ev.Case(nontrivial, ev.Hash(c), ls...)
		if nontrivial {
			ev.Sample(c)
		}
		for _, v := range viols {
			ev.Violation(t, v.sig, c, "%s", v.detail)
		}
	}
	if err != nil {
		if len(chain.missing)+len(chain.wrongType) > 0 {
			// the node's spec lacks a domain type: refusing to start is acceptable
			labels["spec-incomplete:signer-refused-to-start"] = true
			finish(false, nil)
			return
		}
		labels["signer-not-constructed"] = true
		finish(false, []violation{{"new:error", fmt.Sprintf("the signer cannot be constructed on a complete spec: %v", err)}})
		return
	}

	var viols []violation
	nontrivial := false
	failedKinds := map[string]bool{} // kinds of which an earlier request met a failing node
	for start := 0; start < len(c.Ops); {
		end := start + 1
		for end < len(c.Ops) && c.Ops[end].With {
			end++
		}
		n := end - start
		exps := make([]*expectation, n)
		for k := 0; k < n; k++ {
			oi := start + k
			op := &c.Ops[oi]
			exp, err := expect(c, op, seq(len(op.Accounts)))
			if err != nil {
				t.Fatalf("harness problem: %v", err)
			}
			exps[k] = exp
			if classify(c, chain, op, exp, labels) {
				nontrivial = true
			}
			if failedKinds[op.Kind] {
				labels["request-after-a-failed-request-of-the-same-kind"] = true
				nontrivial = true
			}
			if chain.absent(exp.domainName) {
				labels["spec-lacks-the-domain-type-of-the-request"] = true
				nontrivial = true
			}
		}
		// run the group
		results := make([]result, n)
		if n == 1 {
			chain.begin(start, c.Ops[start].FailCall)
			results[0] = call(withInvocation(ctx, start), svc, &c.Ops[start], accts, seq(len(c.Ops[start].Accounts)))
		} else {
			labels["concurrent-group"] = true
			for k := 1; k < n; k++ {
				if exps[k].domainName != exps[0].domainName && !exps[k].genesis && !exps[0].genesis && exps[k].epoch == exps[0].epoch {
					labels["concurrent-requests-of-different-duties-in-one-epoch"] = true
					nontrivial = true
				}
			}
			chain.group(n)
			var wg sync.WaitGroup
			for k := 0; k < n; k++ {
				oi := start + k
				chain.begin(oi, c.Ops[oi].FailCall)
				wg.Add(1)
				go func(k, oi int) {
					defer wg.Done()
					results[k] = call(withInvocation(ctx, oi), svc, &c.Ops[oi], accts, seq(len(c.Ops[oi].Accounts)))
					chain.finished(oi)
				}(k, oi)
			}
			wg.Wait()
			chain.ungroup()
		}
		// judge
		for k := 0; k < n; k++ {
			oi := start + k
			op := &c.Ops[oi]
			st := chain.state(oi)
			if st.failed {
				labels["node-failure-during-request"] = true
				failedKinds[op.Kind] = true
			}
			first := judge(c, chain, op, pubs, exps[k], results[k], st, &viols, "")
			if n == 1 && op.Perm != nil && first != nil {
				if !isPerm(op.Perm, len(op.Accounts)) || !batchOps[op.Kind] {
					t.Fatalf("harness problem: bad permutation")
				}
				labels["permuted-repeat"] = true
				exp2, err := expect(c, op, op.Perm)
				if err != nil {
					t.Fatalf("harness problem: %v", err)
				}
				id := 1000 + oi
				chain.begin(id, 0)
				res2 := call(withInvocation(ctx, id), svc, op, accts, op.Perm)
				second := judge(c, chain, op, pubs, exp2, res2, chain.state(id), &viols, " (permuted repeat)")
				if second != nil {
					for j, k := range op.Perm {
						if second[j] != first[k] {
							viols = append(viols, violation{op.Kind + ":permutation-changes-signature",
								fmt.Sprintf("op %d: position %d of the permuted request (item %d) got %#x, the original request gave %#x", oi, j, k, second[j][:8], first[k][:8])})
							break
						}
					}
				}
			}
		}
		start = end
	}
	finish(nontrivial, viols)
}

// classify adds the evidence labels of one request and says whether it meets
// the non-trivial rule by itself.
func classify(c *Case, chain *chainDouble, op *Op, exp *expectation, labels map[string]bool) bool {
	labels["op:"+op.Kind] = true
	classes := map[string]bool{}
	msgsDistinct := map[chunk]bool{}
	denied := 0
	for _, it := range exp.items {
		classes[acctClass(c.Accounts[it.acct])] = true
		msgsDistinct[it.message] = true
		if c.Accounts[it.acct].Deny {
			denied++
		}
	}
	nearFork := false
	if !exp.genesis {
		for _, f := range chain.forks {
			if f.epoch > 0 && exp.epoch+1 >= f.epoch && exp.epoch <= f.epoch+1 {
				nearFork = true
			}
		}
	}
	mixed := batchOps[op.Kind] && len(classes) >= 2
	if mixed {
		labels["batch-mixes->=2-account-classes"] = true
		if len(msgsDistinct) >= 2 {
			labels["mixed-batch-with->=2-distinct-messages"] = true
		}
		_, a := classes["multi"]
		_, b := classes["multi+dist"]
		if a && b {
			labels["mixed-batch:multi-signers"] = true
		} else {
			labels["mixed-batch:local-signers"] = true
		}
	}
	if nearFork {
		labels["duty-epoch-within-1-of-a-fork-epoch"] = true
		for _, f := range chain.forks {
			if f.epoch > 0 && f.epoch == exp.epoch {
				labels["duty-epoch-is-a-fork-epoch"] = true
			}
			if f.epoch > 0 && f.epoch == exp.epoch+1 {
				labels["duty-epoch-is-last-before-a-fork"] = true
			}
		}
	}
	if exp.genesis && len(chain.forks) > 1 && chain.forks[1].epoch == 0 {
		labels["registration-with-several-forks-at-genesis"] = true
	}
	if denied > 0 {
		labels["request-with-denied-account"] = true
	}
	if len(op.Accounts) != len(msgsDistinctAccounts(op)) {
		labels["batch-with-repeated-account"] = true
	}
	return mixed || nearFork
}

func msgsDistinctAccounts(op *Op) map[int]bool {
	m := map[int]bool{}
	for _, a := range op.Accounts {
		m[a] = true
	}
	return m
}

func isPerm(p []int, n int) bool {
	if len(p) != n {
		return false
	}
	seen := make([]bool, n)
	for _, v := range p {
		if v < 0 || v >= n || seen[v] {
			return false
		}
		seen[v] = true
	}
	return true
}

// judge judges the outcome of one request: every returned signature must
// verify.  It returns the signatures if the request produced a full set, else nil.
func judge(c *Case, chain *chainDouble, op *Op, pubs []e2types.PublicKey, exp *expectation, res result, st callState,
	viols *[]violation, suffix string,
) []phase0.BLSSignature {
	asked := strings.Join(st.requests, ", ")
	if st.failed {
		asked += fmt.Sprintf(" [request %d failed as scripted]", st.failAt)
	}
	where := fmt.Sprintf("%s%s slot %d epoch %d (asked the node for: %s)", op.Kind, suffix, op.Slot, exp.epoch, asked)
	add := func(sig, format string, args ...any) {
		*viols = append(*viols, violation{op.Kind + ":" + sig, where + ": " + fmt.Sprintf(format, args...)})
	}
	if res.panicked != "" {
		add("panic", "%s", res.panicked)
		return nil
	}
	deniedSingle := false
	if !batchOps[op.Kind] || !isMulti(c, exp) {
		// requests that go to the account itself: a refusal is an error
		for _, it := range exp.items {
			deniedSingle = deniedSingle || c.Accounts[it.acct].Deny
		}
	}
	if res.err != nil {
		if deniedSingle {
			return nil // the signer refused; nothing was returned
		}
		if st.failed || chain.absent(exp.domainName) {
			return nil // the node failed, or does not know the domain type: nothing was returned
		}
		add("error", "no signature, error %v", res.err)
		return nil
	}
	if deniedSingle {
		add("refused-but-signed", "the account refuses to sign but a result was returned")
		return nil
	}
	if len(res.sigs) != len(exp.items) {
		add("count", "%d signatures for %d accounts", len(res.sigs), len(exp.items))
		return nil
	}
	dom := refDomain(chain, exp)
	for i, it := range exp.items {
		sig := res.sigs[i]
		if c.Accounts[it.acct].Deny {
			// Dirk-like signers leave the signature of a refused account empty
			if sig != (phase0.BLSSignature{}) {
				add("refused-but-signed", "position %d (account %d) was refused by the signer but carries signature %#x", i, it.acct, sig[:8])
			}
			continue
		}
		if !verifies(sig, signingRoot(it.message, dom), pubs[it.acct]) {
			what := "empty signature"
			if sig != (phase0.BLSSignature{}) {
				what = diagnose(c, chain, exp, i, sig, pubs)
			}
			add("not-the-spec-signing-root", "signature %d of %d (account %d, %s) does not verify under the account's key against HTR(SigningData{message, domain(%s, epoch %d)}): %s",
				i, len(exp.items), it.acct, acctClass(c.Accounts[it.acct]), exp.domainName, exp.epoch, what)
			return nil
		}
	}
	return res.sigs
}

// isMulti: the batch is signed through multi-signers (which answer per account).
func isMulti(c *Case, exp *expectation) bool {
	for _, it := range exp.items {
		if c.Accounts[it.acct].Kind != "multi" {
			return false
		}
	}
	return true
}

func TestSignatures(t *testing.T) {
	rapid.Check(t, func(t *rapid.T) {
		c := genCase(t)
		check(t, &c)
	})
}

// TestReplay re-executes a saved case without the property library.
func TestReplay(t *testing.T) {
	f := ev.ReplayFile()
	if f == "" {
		t.Skip("no replay file")
	}
	var c Case
	if _, err := ev.LoadCase(f, &c); err != nil {
		t.Fatalf("cannot load %s: %v", f, err)
	}
	check(t, &c)
	ev.ReplayPassed()
}
