package c06

// Account doubles around real BLS keys.  Six concrete types give the method
// sets services/signer/standard type-switches on:
//
//	plain            AccountSigner                                   (wallet nd/hd accounts)
//	plain+dist       AccountSigner, DistributedAccount               (wallet distributed accounts)
//	protecting       AccountSigner, AccountProtectingSigner
//	protecting+dist  the same plus DistributedAccount
//	multi            AccountProtectingSigner, AccountProtectingMultiSigner (Dirk accounts)
//	multi+dist       the same plus DistributedAccount                (Dirk distributed accounts)
//
// A plain signer signs the 32 bytes it is given.  A protecting signer is given
// structured data and a domain and computes the spec signing root itself (as a
// wallet or Dirk does), so a wrong argument passed by vouch yields a signature
// that does not verify against the intended root.

import (
	"context"
	"crypto/sha256"
	"errors"
	"fmt"
	"sync"

	"github.com/google/uuid"
	e2types "github.com/wealdtech/go-eth2-types/v2"
	e2wtypes "github.com/wealdtech/go-eth2-wallet-types/v2"
)

const nKeys = 16

var (
	keys          [nKeys]*e2types.BLSPrivateKey
	compositeKeys [nKeys]*e2types.BLSPrivateKey
)

func init() {
	if err := e2types.InitBLS(); err != nil {
		panic(err)
	}
	mk := func(tag string, i int) *e2types.BLSPrivateKey {
		s := sha256.Sum256([]byte(fmt.Sprintf("verif-c06-%s-%d", tag, i)))
		s[0] &= 0x3f // below the curve order
		k, err := e2types.BLSPrivateKeyFromBytes(s[:])
		if err != nil {
			panic(err)
		}
		return k
	}
	for i := 0; i < nKeys; i++ {
		keys[i] = mk("key", i)
		compositeKeys[i] = mk("composite", i)
	}
}

// base is what every account double has.
type base struct {
	idx       int // position in Case.Accounts
	id        uuid.UUID
	name      string
	key       *e2types.BLSPrivateKey
	composite *e2types.BLSPrivateKey
	deny      bool
	calls     *[]string // log of the signing methods called (shared by the case)
}

func (b *base) ID() uuid.UUID                { return b.id }
func (b *base) Name() string                 { return b.name }
func (b *base) PublicKey() e2types.PublicKey { return b.key.PublicKey() }
func (b *base) core() *base                  { return b }
func (b *base) note(m string) {
	noteMu.Lock()
	*b.calls = append(*b.calls, fmt.Sprintf("%s:%s", b.name, m))
	noteMu.Unlock()
}

// noteMu guards the call logs (requests of a concurrent group sign in parallel).
var noteMu sync.Mutex

type hasCore interface{ core() *base }

func chunkOf(b []byte) (chunk, error) {
	var c chunk
	if len(b) != 32 {
		return c, fmt.Errorf("expected 32 bytes, got %d", len(b))
	}
	copy(c[:], b)
	return c, nil
}

// signer: AccountSigner.
type signer struct{ b *base }

func (s signer) Sign(_ context.Context, data []byte) (e2types.Signature, error) {
	s.b.note("Sign")
	return s.b.key.Sign(data), nil
}

// protector: AccountProtectingSigner.
type protector struct{ b *base }

func (p protector) signGeneric(data, domain []byte) (e2types.Signature, error) {
	r, err := chunkOf(data)
	if err != nil {
		return nil, err
	}
	d, err := chunkOf(domain)
	if err != nil {
		return nil, err
	}
	sr := signingRoot(r, d)
	return p.b.key.Sign(sr[:]), nil
}

func (p protector) SignGeneric(_ context.Context, data []byte, domain []byte) (e2types.Signature, error) {
	p.b.note("SignGeneric")
	if p.b.deny {
		return nil, errors.New("denied")
	}
	return p.signGeneric(data, domain)
}

func (p protector) SignBeaconProposal(_ context.Context, slot uint64, proposerIndex uint64, parentRoot []byte, stateRoot []byte, bodyRoot []byte, domain []byte) (e2types.Signature, error) {
	p.b.note("SignBeaconProposal")
	if p.b.deny {
		return nil, errors.New("denied")
	}
	pr, err1 := chunkOf(parentRoot)
	st, err2 := chunkOf(stateRoot)
	bo, err3 := chunkOf(bodyRoot)
	if err := errors.Join(err1, err2, err3); err != nil {
		return nil, err
	}
	r := headerRoot(slot, proposerIndex, pr, st, bo)
	return p.signGeneric(r[:], domain)
}

func (p protector) signAttestation(slot, committeeIndex uint64, blockRoot []byte, sourceEpoch uint64, sourceRoot []byte, targetEpoch uint64, targetRoot []byte, domain []byte) (e2types.Signature, error) {
	br, err1 := chunkOf(blockRoot)
	sr, err2 := chunkOf(sourceRoot)
	tr, err3 := chunkOf(targetRoot)
	if err := errors.Join(err1, err2, err3); err != nil {
		return nil, err
	}
	r := attestationDataRoot(slot, committeeIndex, br, sourceEpoch, sr, targetEpoch, tr)
	return p.signGeneric(r[:], domain)
}

func (p protector) SignBeaconAttestation(_ context.Context, slot uint64, committeeIndex uint64, blockRoot []byte, sourceEpoch uint64, sourceRoot []byte, targetEpoch uint64, targetRoot []byte, domain []byte) (e2types.Signature, error) {
	p.b.note("SignBeaconAttestation")
	if p.b.deny {
		return nil, errors.New("denied")
	}
	return p.signAttestation(slot, committeeIndex, blockRoot, sourceEpoch, sourceRoot, targetEpoch, targetRoot, domain)
}

// multisigner: AccountProtectingMultiSigner.  Like Dirk it answers for every
// account of the request and leaves the signature of a refused account nil.
type multisigner struct{ b *base }

func (m multisigner) SignBeaconAttestations(_ context.Context, slot uint64, accounts []e2wtypes.Account, committeeIndices []uint64, blockRoot []byte, sourceEpoch uint64, sourceRoot []byte, targetEpoch uint64, targetRoot []byte, domain []byte) ([]e2types.Signature, error) {
	m.b.note(fmt.Sprintf("SignBeaconAttestations[%d]", len(accounts)))
	if len(accounts) != len(committeeIndices) {
		return nil, errors.New("accounts/committee indices mismatch")
	}
	out := make([]e2types.Signature, len(accounts))
	for i, a := range accounts {
		c, ok := a.(hasCore)
		if !ok {
			return nil, errors.New("foreign account")
		}
		if _, ok := a.(e2wtypes.AccountProtectingMultiSigner); !ok {
			return nil, errors.New("account of another wallet")
		}
		if c.core().deny {
			continue
		}
		sig, err := protector{c.core()}.signAttestation(slot, committeeIndices[i], blockRoot, sourceEpoch, sourceRoot, targetEpoch, targetRoot, domain)
		if err != nil {
			return nil, err
		}
		out[i] = sig
	}
	return out, nil
}

func (m multisigner) SignGenericMulti(_ context.Context, accounts []e2wtypes.Account, data [][]byte, domain []byte) ([]e2types.Signature, error) {
	m.b.note(fmt.Sprintf("SignGenericMulti[%d]", len(accounts)))
	if len(accounts) != len(data) {
		return nil, errors.New("accounts/data mismatch")
	}
	out := make([]e2types.Signature, len(accounts))
	for i, a := range accounts {
		c, ok := a.(hasCore)
		if !ok {
			return nil, errors.New("foreign account")
		}
		if _, ok := a.(e2wtypes.AccountProtectingMultiSigner); !ok {
			return nil, errors.New("account of another wallet")
		}
		if c.core().deny {
			continue
		}
		sig, err := protector{c.core()}.signGeneric(data[i], domain)
		if err != nil {
			return nil, err
		}
		out[i] = sig
	}
	return out, nil
}

// distributed: DistributedAccount (PublicKey is the share key).
type distributed struct{ b *base }

func (d distributed) CompositePublicKey() e2types.PublicKey { return d.b.composite.PublicKey() }
func (d distributed) SigningThreshold() uint32              { return 2 }
func (d distributed) Participants() map[uint64]string {
	return map[uint64]string{1: "signer-1:8881", 2: "signer-2:8881", 3: "signer-3:8881"}
}

type (
	plainAcct struct {
		*base
		signer
	}
	plainDistAcct struct {
		*base
		signer
		distributed
	}
	protAcct struct {
		*base
		signer
		protector
	}
	protDistAcct struct {
		*base
		signer
		protector
		distributed
	}
	multiAcct struct {
		*base
		protector
		multisigner
	}
	multiDistAcct struct {
		*base
		protector
		multisigner
		distributed
	}
)

// static checks of the method sets
var (
	_ e2wtypes.AccountSigner                = plainAcct{}
	_ e2wtypes.DistributedAccount           = plainDistAcct{}
	_ e2wtypes.AccountProtectingSigner      = protAcct{}
	_ e2wtypes.AccountSigner                = protDistAcct{}
	_ e2wtypes.AccountProtectingMultiSigner = multiAcct{}
	_ e2wtypes.DistributedAccount           = multiDistAcct{}
)

// Acct describes one account of a case.
type Acct struct {
	// Kind is plain | protecting | multi.
	Kind string `json:"kind"`
	Dist bool   `json:"dist,omitempty"`
	// Key selects one of the fixed BLS keys.
	Key int `json:"key"`
	// Deny: the (multi) signer refuses to sign for this account.
	Deny bool `json:"deny,omitempty"`
}

func buildAccount(i int, a Acct, calls *[]string) (e2wtypes.Account, error) {
	if a.Key < 0 || a.Key >= nKeys {
		return nil, fmt.Errorf("no key %d", a.Key)
	}
	b := &base{
		idx:       i,
		id:        uuid.NewSHA1(uuid.Nil, []byte(fmt.Sprintf("account-%d", i))),
		name:      fmt.Sprintf("account-%d", i),
		key:       keys[a.Key],
		composite: compositeKeys[a.Key],
		deny:      a.Deny,
		calls:     calls,
	}
	var acc e2wtypes.Account
	switch {
	case a.Kind == "plain" && !a.Dist:
		acc = plainAcct{b, signer{b}}
	case a.Kind == "plain" && a.Dist:
		acc = plainDistAcct{b, signer{b}, distributed{b}}
	case a.Kind == "protecting" && !a.Dist:
		acc = protAcct{b, signer{b}, protector{b}}
	case a.Kind == "protecting" && a.Dist:
		acc = protDistAcct{b, signer{b}, protector{b}, distributed{b}}
	case a.Kind == "multi" && !a.Dist:
		acc = multiAcct{b, protector{b}, multisigner{b}}
	case a.Kind == "multi" && a.Dist:
		acc = multiDistAcct{b, protector{b}, multisigner{b}, distributed{b}}
	default:
		return nil, fmt.Errorf("unknown account kind %q", a.Kind)
	}
	if a.Deny && a.Kind != "multi" {
		return nil, errors.New("only multi signers deny")
	}
	// the distributed method set must be exactly as described
	_, isDist := acc.(e2wtypes.DistributedAccount)
	if isDist != a.Dist {
		return nil, errors.New("distributed method set is wrong")
	}
	return acc, nil
}
