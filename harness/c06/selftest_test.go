package c06

// Self-test of the harness: the reference merkleisation (refssz_test.go) must
// agree with go-eth2-client's generated HashTreeRoot code on generated values.
// A disagreement is a harness problem (exit 2), not a finding about vouch.

import (
	"testing"
	"time"

	builderapiv1 "github.com/attestantio/go-builder-client/api/v1"
	"github.com/attestantio/go-eth2-client/spec/altair"
	"github.com/attestantio/go-eth2-client/spec/bellatrix"
	"github.com/attestantio/go-eth2-client/spec/phase0"
	"github.com/prysmaticlabs/go-bitfield"
	e2types "github.com/wealdtech/go-eth2-types/v2"
	"pgregory.net/rapid"

	"verifharness/internal/ev"
)

type rooter interface{ HashTreeRoot() ([32]byte, error) }

func TestRefSSZ(t *testing.T) {
	rapid.Check(t, func(t *rapid.T) {
		seed := rapid.Uint64().Draw(t, "seed")
		u := func(name string) uint64 {
			return rapid.OneOf(rapid.Uint64(), rapid.Uint64Range(0, 300), rapid.Just(uint64(1<<64-1))).Draw(t, name)
		}
		same := func(what string, ref chunk, lib rooter) {
			got, err := lib.HashTreeRoot()
			if err != nil {
				t.Fatalf("harness problem: library root of %s: %v", what, err)
			}
			if got != ref {
				t.Fatalf("harness problem: reference root of %s is %x, library says %x", what, ref, got)
			}
		}
		slot, index, se, te := u("slot"), u("index"), u("sourceEpoch"), u("targetEpoch")
		bbr, sr, tr := root(seed, "bbr"), root(seed, "sr"), root(seed, "tr")

		same("Checkpoint", checkpointRoot(se, sr), &phase0.Checkpoint{Epoch: phase0.Epoch(se), Root: sr})
		data := &phase0.AttestationData{
			Slot: phase0.Slot(slot), Index: phase0.CommitteeIndex(index), BeaconBlockRoot: bbr,
			Source: &phase0.Checkpoint{Epoch: phase0.Epoch(se), Root: sr},
			Target: &phase0.Checkpoint{Epoch: phase0.Epoch(te), Root: tr},
		}
		dataRoot := attestationDataRoot(slot, index, bbr, se, sr, te, tr)
		same("AttestationData", dataRoot, data)

		proposer := u("proposer")
		same("BeaconBlockHeader", headerRoot(slot, proposer, bbr, sr, tr),
			&phase0.BeaconBlockHeader{Slot: phase0.Slot(slot), ProposerIndex: phase0.ValidatorIndex(proposer), ParentRoot: bbr, StateRoot: sr, BodyRoot: tr})

		dom := root(seed, "domain")
		same("SigningData", signingRoot(bbr, dom), &phase0.SigningData{ObjectRoot: bbr, Domain: phase0.Domain(dom)})

		var version, dt [4]byte
		copy(version[:], expand(seed, "version", 4))
		copy(dt[:], expand(seed, "domain-type", 4))
		same("ForkData", forkDataRoot(version, sr), &phase0.ForkData{CurrentVersion: version, GenesisValidatorsRoot: sr})
		libDomain, err := e2types.ComputeDomain(e2types.DomainType(dt), version[:], sr[:])
		if err != nil {
			t.Fatalf("harness problem: %v", err)
		}
		if d := computeDomain(dt, version, sr); string(libDomain) != string(d[:]) {
			t.Fatalf("harness problem: reference compute_domain is %x, go-eth2-types says %x", d, libDomain)
		}

		sub := u("subcommittee")
		same("SyncAggregatorSelectionData", syncSelectionDataRoot(slot, sub),
			&altair.SyncAggregatorSelectionData{Slot: phase0.Slot(slot), SubcommitteeIndex: sub})

		b16 := bits16(seed, "bits")
		csig, proof := sig96(seed, "csig"), sig96(seed, "proof")
		contribution := &altair.SyncCommitteeContribution{
			Slot: phase0.Slot(slot), BeaconBlockRoot: bbr, SubcommitteeIndex: sub,
			AggregationBits: bitfield.Bitvector128(b16[:]), Signature: csig,
		}
		cRoot := contributionRoot(slot, bbr, sub, b16, csig)
		same("SyncCommitteeContribution", cRoot, contribution)
		agg := u("aggregator")
		same("ContributionAndProof", contributionAndProofRoot(agg, cRoot, proof),
			&altair.ContributionAndProof{AggregatorIndex: phase0.ValidatorIndex(agg), Contribution: contribution, SelectionProof: proof})

		gas := u("gasLimit")
		ts := rapid.Uint64Range(0, 1<<40).Draw(t, "timestamp")
		same("ValidatorRegistrationV1", registrationRoot(feeRecipient(seed), gas, ts, regPubkey(seed)),
			&builderapiv1.ValidatorRegistration{
				FeeRecipient: bellatrix.ExecutionAddress(feeRecipient(seed)), GasLimit: gas,
				Timestamp: time.Unix(int64(ts), 0), Pubkey: phase0.BLSPubKey(regPubkey(seed)),
			})

		nBits := rapid.OneOf(rapid.IntRange(0, 2048), rapid.SampledFrom([]int{0, 1, 7, 8, 255, 256, 257, 2047, 2048})).Draw(t, "nBits")
		op := &Op{Seed: seed, Bits: nBits}
		bits := aggregationBits(op)
		bl := bitfield.NewBitlist(uint64(nBits))
		for i, set := range bits {
			bl.SetBitAt(uint64(i), set)
		}
		att := &phase0.Attestation{AggregationBits: bl, Data: data, Signature: csig}
		attRoot := attestationRoot(bits, dataRoot, csig)
		same("Attestation", attRoot, att)
		same("AggregateAndProof", aggregateAndProofRoot(agg, attRoot, proof),
			&phase0.AggregateAndProof{AggregatorIndex: phase0.ValidatorIndex(agg), Aggregate: att, SelectionProof: proof})

		// the protecting doubles sign what the reference says, with a real key
		k := keys[rapid.IntRange(0, nKeys-1).Draw(t, "key")]
		sroot := signingRoot(dataRoot, dom)
		if !k.Sign(sroot[:]).Verify(sroot[:], k.PublicKey()) {
			t.Fatalf("harness problem: BLS sign/verify round trip failed")
		}
		ev.Label("selftest-values-compared")
	})
}
