package c06

// Reference SSZ merkleisation of the small fixed containers that validators
// sign, compute_domain and compute_signing_root, written from the consensus
// specification (ssz/simple-serialize.md, phase0/altair beacon-chain.md,
// builder-specs) with crypto/sha256 only.  Nothing of go-eth2-client's
// generated HashTreeRoot code is used here; selftest_test.go compares the two on
// generated values.

import (
	"crypto/sha256"
	"encoding/binary"
)

type chunk = [32]byte

func hash2(a, b chunk) chunk {
	var buf [64]byte
	copy(buf[:32], a[:])
	copy(buf[32:], b[:])
	return sha256.Sum256(buf[:])
}

// merkleize pads the chunks with zero chunks to the next power of two of
// max(len(chunks), limit, 1) and hashes pairwise up to the root.
func merkleize(chunks []chunk, limit int) chunk {
	n := len(chunks)
	if limit > n {
		n = limit
	}
	size := 1
	for size < n {
		size *= 2
	}
	layer := make([]chunk, size)
	copy(layer, chunks)
	for len(layer) > 1 {
		next := make([]chunk, len(layer)/2)
		for i := range next {
			next[i] = hash2(layer[2*i], layer[2*i+1])
		}
		layer = next
	}
	return layer[0]
}

// pack splits a byte string into 32-byte chunks, the last one right-padded.
func pack(b []byte) []chunk {
	var out []chunk
	for len(b) > 0 {
		var c chunk
		n := copy(c[:], b)
		b = b[n:]
		out = append(out, c)
	}
	if len(out) == 0 {
		out = []chunk{{}}
	}
	return out
}

func u64(v uint64) chunk {
	var c chunk
	binary.LittleEndian.PutUint64(c[:8], v)
	return c
}

// bytesRoot is the root of a fixed-size byte vector (BytesN).
func bytesRoot(b []byte) chunk { return merkleize(pack(b), 0) }

func mixInLength(root chunk, n uint64) chunk { return hash2(root, u64(n)) }

func container(fields ...chunk) chunk { return merkleize(fields, 0) }

// class Checkpoint: epoch, root.
func checkpointRoot(epoch uint64, root chunk) chunk { return container(u64(epoch), root) }

// class AttestationData: slot, index, beacon_block_root, source, target.
func attestationDataRoot(slot, index uint64, blockRoot chunk, srcEpoch uint64, srcRoot chunk, tgtEpoch uint64, tgtRoot chunk) chunk {
	return container(u64(slot), u64(index), blockRoot, checkpointRoot(srcEpoch, srcRoot), checkpointRoot(tgtEpoch, tgtRoot))
}

// class BeaconBlockHeader: slot, proposer_index, parent_root, state_root, body_root.
func headerRoot(slot, proposer uint64, parent, state, body chunk) chunk {
	return container(u64(slot), u64(proposer), parent, state, body)
}

// class SigningData: object_root, domain (Bytes32).
func signingRoot(objectRoot chunk, domain chunk) chunk { return container(objectRoot, domain) }

// class ForkData: current_version (Bytes4), genesis_validators_root.
func forkDataRoot(version [4]byte, gvr chunk) chunk { return container(bytesRoot(version[:]), gvr) }

// compute_domain: domain_type + fork_data_root[:28].
func computeDomain(domainType [4]byte, version [4]byte, gvr chunk) chunk {
	r := forkDataRoot(version, gvr)
	var d chunk
	copy(d[:4], domainType[:])
	copy(d[4:], r[:28])
	return d
}

// class SyncAggregatorSelectionData: slot, subcommittee_index.
func syncSelectionDataRoot(slot, subcommittee uint64) chunk {
	return container(u64(slot), u64(subcommittee))
}

// class SyncCommitteeContribution: slot, beacon_block_root, subcommittee_index,
// aggregation_bits (Bitvector[SYNC_COMMITTEE_SIZE // SYNC_COMMITTEE_SUBNET_COUNT] = 128 bits), signature.
func contributionRoot(slot uint64, blockRoot chunk, subcommittee uint64, bits [16]byte, sig [96]byte) chunk {
	return container(u64(slot), blockRoot, u64(subcommittee), bytesRoot(bits[:]), bytesRoot(sig[:]))
}

// class ContributionAndProof: aggregator_index, contribution, selection_proof.
func contributionAndProofRoot(aggregator uint64, contribution chunk, proof [96]byte) chunk {
	return container(u64(aggregator), contribution, bytesRoot(proof[:]))
}

// class ValidatorRegistrationV1 (builder-specs): fee_recipient (Bytes20),
// gas_limit, timestamp, pubkey (Bytes48).
func registrationRoot(feeRecipient [20]byte, gasLimit, timestamp uint64, pubkey [48]byte) chunk {
	return container(bytesRoot(feeRecipient[:]), u64(gasLimit), u64(timestamp), bytesRoot(pubkey[:]))
}

// bitlistRoot: Bitlist[limit]; bits are packed little-endian without the
// serialisation delimiter, merkleised with the chunk limit, length mixed in.
func bitlistRoot(bits []bool, limit int) chunk {
	b := make([]byte, (len(bits)+7)/8)
	for i, set := range bits {
		if set {
			b[i/8] |= 1 << (uint(i) % 8)
		}
	}
	var chunks []chunk
	if len(b) > 0 {
		chunks = pack(b)
	}
	return mixInLength(merkleize(chunks, (limit+255)/256), uint64(len(bits)))
}

// class Attestation (phase0): aggregation_bits (Bitlist[MAX_VALIDATORS_PER_COMMITTEE = 2048]), data, signature.
func attestationRoot(bits []bool, data chunk, sig [96]byte) chunk {
	return container(bitlistRoot(bits, 2048), data, bytesRoot(sig[:]))
}

// class AggregateAndProof: aggregator_index, aggregate, selection_proof.
func aggregateAndProofRoot(aggregator uint64, aggregate chunk, proof [96]byte) chunk {
	return container(u64(aggregator), aggregate, bytesRoot(proof[:]))
}
