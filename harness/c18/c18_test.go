// Package c18 decides property C18: a block root always maps to that block's
// slot (hit, miss, failed fetch) and cleaning only removes entries older than
// the retention window.  Subject: the real services/cache/standard.
package c18

import (
	"context"
	"errors"
	"fmt"
	"sync"
	"testing"
	"time"

	consensusclient "github.com/attestantio/go-eth2-client"
	"github.com/attestantio/go-eth2-client/api"
	apiv1 "github.com/attestantio/go-eth2-client/api/v1"
	"github.com/attestantio/go-eth2-client/spec"
	"github.com/attestantio/go-eth2-client/spec/phase0"
	cache "github.com/attestantio/vouch/services/cache/standard"
	"github.com/rs/zerolog"
	"pgregory.net/rapid"

	"verifharness/internal/ev"
	"verifharness/internal/fakes"
)

const retentionEpochs = 64 // the documented retention window ("Keep 64 epochs of information around")

// Op is one step of a history.
type Op struct {
	Kind string `json:"kind"` // block | nilblock | lookup | colookup | advance | clean | burst
	Root int    `json:"root,omitempty"`
	// Fail: the header provider fails if this lookup has to consult it.
	Fail bool `json:"fail,omitempty"`
	// FailKind: how it fails: 0 plain error, 1 api.Error 404 (what the HTTP client returns for an unknown
	// block), 2 api.Error 503, 3 context deadline exceeded.
	FailKind int `json:"fail_kind,omitempty"`
	// Burst (kind "burst"): number of goroutines delivering block events while cleans run concurrently.
	Burst int `json:"burst,omitempty"`
	// Optimistic (kind "block"): the event carries execution_optimistic=true.
	Optimistic bool `json:"optimistic,omitempty"`
	// Lookups (kind "colookup"): number of goroutines looking the same root up at the same time; the first
	// header request is held by the provider until the others have started, then all are answered
	// (or all fail, as Fail/FailKind say).
	Lookups int `json:"lookups,omitempty"`
	// Spread (kind "colookup"): goroutine k looks up root (Root+k) mod universe instead of all the same root.
	Spread bool   `json:"spread,omitempty"`
	Epochs uint64 `json:"epochs,omitempty"` // advance
	Slots  uint64 `json:"slots,omitempty"`  // advance (in addition to epochs)
}

// Case is a whole history.  RootSlot is the universe: root i is the root of the
// block at slot RootSlot[i] (a root belongs to exactly one block, so events and
// the header provider agree on it).
type Case struct {
	SlotsPerEpoch uint64   `json:"slots_per_epoch"`
	StartEpoch    uint64   `json:"start_epoch"`
	RootSlot      []uint64 `json:"root_slot"`
	// Parent[i] is the index of the root's parent block in the universe (a root with a lower slot, not
	// necessarily slot-1: slots can be skipped), or -1 when the parent is outside the universe.
	Parent []int `json:"parent,omitempty"`
	// NonCanonical[i]: the beacon node serves root i's header with canonical=false (an orphaned or
	// minority-fork block; it still has exactly one slot).
	NonCanonical []bool `json:"non_canonical,omitempty"`
	// ZeroRoot: when > 0, root ZeroRoot-1 of the universe is the all-zero root (a legal 32-byte value like
	// any other: "for any roots and slots").
	ZeroRoot int  `json:"zero_root,omitempty"`
	Ops      []Op `json:"ops"`
}

// burstRoot is a root outside the universe, unique per (op, goroutine, k).
func burstRoot(op, g, k int) phase0.Root {
	var r phase0.Root
	r[0] = 0xff
	r[1], r[2], r[3] = byte(op), byte(g), byte(k)
	r[31] = 0xc2
	return r
}

// parentRoot is the parent root reported in root i's header.
func (c *Case) parentRoot(i int) phase0.Root {
	if i < len(c.Parent) && c.Parent[i] >= 0 && c.Parent[i] < len(c.RootSlot) {
		return c.root(c.Parent[i])
	}
	var r phase0.Root
	r[0] = byte(i + 1)
	r[31] = 0xc3 // a root outside the universe
	return r
}

// root is the value of root i of the universe.
func (c *Case) root(i int) phase0.Root {
	if c.ZeroRoot == i+1 {
		return phase0.Root{}
	}
	return rootOf(i)
}

func rootOf(i int) phase0.Root {
	var r phase0.Root
	r[0] = byte(i + 1)
	r[31] = 0xc1
	return r
}

// headers is the scripted header provider.
type headers struct {
	c        *Case
	calls    int
	callsMu  sync.Mutex
	failNext bool
	failKind int
	// hold, when set, makes every request announce itself on arrived and wait until hold is closed.
	hold    chan struct{}
	arrived chan struct{}
}

func (h *headers) BeaconBlockHeader(_ context.Context, opts *api.BeaconBlockHeaderOpts) (*api.Response[*apiv1.BeaconBlockHeader], error) {
	h.callsMu.Lock()
	h.calls++
	h.callsMu.Unlock()
	if h.hold != nil {
		h.arrived <- struct{}{}
		<-h.hold
	}
	if h.failNext {
		switch h.failKind {
		case 1:
			return nil, &api.Error{Method: "GET", Endpoint: "/eth/v1/beacon/headers/" + opts.Block, StatusCode: 404, Data: []byte(`{"code":404,"message":"NOT_FOUND: beacon block not found"}`)}
		case 2:
			return nil, &api.Error{Method: "GET", Endpoint: "/eth/v1/beacon/headers/" + opts.Block, StatusCode: 503, Data: []byte(`{"code":503,"message":"syncing"}`)}
		case 3:
			return nil, context.DeadlineExceeded
		}
		return nil, errors.New("scripted header failure")
	}
	for i := range h.c.RootSlot {
		if h.c.root(i).String() == opts.Block {
			return &api.Response[*apiv1.BeaconBlockHeader]{Data: &apiv1.BeaconBlockHeader{
				Root:      h.c.root(i),
				Canonical: !(i < len(h.c.NonCanonical) && h.c.NonCanonical[i]),
				Header: &phase0.SignedBeaconBlockHeader{Message: &phase0.BeaconBlockHeader{
					Slot:       phase0.Slot(h.c.RootSlot[i]),
					ParentRoot: h.c.parentRoot(i),
				}},
			}, Metadata: map[string]any{}}, nil
		}
	}
	return nil, errors.New("unknown block")
}

type blocks struct{}

func (blocks) SignedBeaconBlock(context.Context, *api.SignedBeaconBlockOpts) (*api.Response[*spec.VersionedSignedBeaconBlock], error) {
	return nil, errors.New("no head block")
}

type events struct {
	handlers map[string]consensusclient.EventHandlerFunc
}

func (e *events) Events(_ context.Context, topics []string, handler consensusclient.EventHandlerFunc) error {
	for _, t := range topics {
		e.handlers[t] = handler
	}
	return nil
}

func genCase(t *rapid.T) Case {
	c := Case{
		SlotsPerEpoch: rapid.SampledFrom([]uint64{1, 2, 4, 8, 32}).Draw(t, "spe"),
		StartEpoch:    rapid.SampledFrom([]uint64{0, 1, 63, 64, 65, 66, 70, 100, 200}).Draw(t, "startEpoch"),
	}
	nRoots := rapid.IntRange(1, 8).Draw(t, "nRoots")
	nOps := rapid.IntRange(1, 30).Draw(t, "nOps")
	// The clock position at each op is known while generating (advance ops are
	// drawn here), so slots can be placed relative to the retention boundary of
	// the *final* clock as well as of intermediate clocks.
	type pending struct{ op Op }
	epoch := c.StartEpoch
	slotInEpoch := uint64(0)
	var epochsAt []uint64
	for i := 0; i < nOps; i++ {
		kind := rapid.SampledFrom([]string{"block", "block", "lookup", "lookup", "lookup", "advance", "clean", "clean", "nilblock", "burst", "colookup"}).Draw(t, "kind")
		op := Op{Kind: kind}
		switch kind {
		case "block", "lookup", "colookup":
			op.Root = rapid.IntRange(0, nRoots-1).Draw(t, "root")
			if kind == "lookup" {
				op.Fail = rapid.IntRange(0, 3).Draw(t, "fail") == 0
				if op.Fail {
					op.FailKind = rapid.IntRange(0, 3).Draw(t, "failKind")
				}
			}
			if kind == "colookup" {
				op.Lookups = rapid.IntRange(2, 3).Draw(t, "lookups")
				op.Fail = rapid.Bool().Draw(t, "coFail")
				op.Spread = nRoots > 1 && rapid.Bool().Draw(t, "spread")
				if op.Fail {
					op.FailKind = rapid.IntRange(0, 3).Draw(t, "failKind")
				}
			}
			if kind == "block" {
				op.Optimistic = rapid.IntRange(0, 3).Draw(t, "optimistic") == 0
			}
		case "burst":
			op.Burst = rapid.IntRange(2, 4).Draw(t, "burst")
		case "advance":
			op.Epochs = rapid.SampledFrom([]uint64{0, 0, 1, 1, 2, 30, 63, 64, 65, 200}).Draw(t, "epochs")
			op.Slots = rapid.Uint64Range(0, c.SlotsPerEpoch-1).Draw(t, "slots")
			total := epoch*c.SlotsPerEpoch + slotInEpoch + op.Epochs*c.SlotsPerEpoch + op.Slots
			epoch, slotInEpoch = total/c.SlotsPerEpoch, total%c.SlotsPerEpoch
		}
		c.Ops = append(c.Ops, op)
		epochsAt = append(epochsAt, epoch)
	}
	// Root slots: around the retention boundary of some clock position reached
	// in the history, or anywhere.
	for i := 0; i < nRoots; i++ {
		ref := epochsAt[rapid.IntRange(0, len(epochsAt)-1).Draw(t, "refOp")]
		back := rapid.SampledFrom([]uint64{0, 1, 2, 62, 63, 64, 64, 65, 66, 100}).Draw(t, "back")
		var slot uint64
		if back <= ref {
			slot = (ref-back)*c.SlotsPerEpoch + rapid.Uint64Range(0, c.SlotsPerEpoch-1).Draw(t, "inEpoch")
		} else {
			slot = rapid.Uint64Range(0, (ref+1)*c.SlotsPerEpoch).Draw(t, "anySlot")
		}
		if rapid.IntRange(0, 9).Draw(t, "zeroSlot") == 0 {
			slot = 0
		}
		c.RootSlot = append(c.RootSlot, slot)
	}
	if rapid.IntRange(0, 4).Draw(t, "hasZeroRoot") == 0 {
		c.ZeroRoot = 1 + rapid.IntRange(0, nRoots-1).Draw(t, "zeroRoot")
	}
	// Parent links: some root of the universe with a strictly lower slot (any gap: skipped slots), or none.
	for i := 0; i < nRoots; i++ {
		parent := -1
		if rapid.Bool().Draw(t, "hasParent") {
			var cands []int
			for j := 0; j < nRoots; j++ {
				if c.RootSlot[j] < c.RootSlot[i] {
					cands = append(cands, j)
				}
			}
			if len(cands) > 0 {
				parent = cands[rapid.IntRange(0, len(cands)-1).Draw(t, "parent")]
			}
		}
		c.Parent = append(c.Parent, parent)
		c.NonCanonical = append(c.NonCanonical, rapid.IntRange(0, 3).Draw(t, "nonCanonical") == 0)
	}
	return c
}

type stats struct {
	missNonZero, cleanAfterRetention, boundaryKept, failedFetch, hitAfterMiss, burst, knewMore, coLookup, coLookupSpread, coLookupFailed, optimistic bool
}

// runAndJudge executes the history against a fresh real cache service and the
// reference map; it returns (signature, detail) of the first disagreement.
func runAndJudge(c *Case) (string, string, stats) {
	var st stats
	zerolog.SetGlobalLevel(zerolog.Disabled)
	ctx, cancel := context.WithCancel(context.Background())
	defer cancel()
	clock := fakes.NewVClock(time.Unix(1600000000, 0), 12*time.Second, c.SlotsPerEpoch)
	clock.SetSlot(c.StartEpoch*c.SlotsPerEpoch, 0)
	sched := fakes.NewSched()
	hp := &headers{c: c}
	evp := &events{handlers: map[string]consensusclient.EventHandlerFunc{}}
	svc, err := cache.New(ctx,
		cache.WithLogLevel(zerolog.Disabled),
		cache.WithChainTime(clock),
		cache.WithScheduler(sched),
		cache.WithEventsProvider(evp),
		cache.WithSignedBeaconBlockProvider(blocks{}),
		cache.WithBeaconBlockHeadersProvider(hp),
	)
	if err != nil {
		return "harness", "cannot construct cache: " + err.Error(), st
	}
	blockHandler := evp.handlers["block"]
	var cleanJob string
	for _, j := range sched.Jobs() {
		if j.Periodic {
			cleanJob = j.Name
		}
	}
	if blockHandler == nil || cleanJob == "" {
		return "harness", "cache did not register a block handler and a periodic clean job", st
	}

	model := map[int]bool{} // root index -> known to be cached (must hit)
	maybe := map[int]bool{} // root index -> may or may not be cached (older than retention at a clean)
	curSlot := c.StartEpoch * c.SlotsPerEpoch
	for i, op := range c.Ops {
		switch op.Kind {
		case "block":
			blockHandler(&apiv1.Event{Topic: "block", Data: &apiv1.BlockEvent{Slot: phase0.Slot(c.RootSlot[op.Root]), Block: c.root(op.Root), ExecutionOptimistic: op.Optimistic}})
			if op.Optimistic {
				st.optimistic = true
			}
			model[op.Root] = true
			delete(maybe, op.Root)
		case "nilblock":
			blockHandler(&apiv1.Event{Topic: "block"})
		case "burst":
			// Block events of the current slot (well inside the window) delivered from several
			// goroutines while cleaning runs: event stream and clean job are different goroutines
			// in production.  Afterwards every delivered root must still be answered from the cache.
			st.burst = true
			const perG = 40
			var wg sync.WaitGroup
			stop := make(chan struct{})
			wg.Add(1)
			go func() {
				defer wg.Done()
				for {
					select {
					case <-stop:
						return
					default:
						sched.Fire(cleanJob)
					}
				}
			}()
			var dg sync.WaitGroup
			for g := 0; g < op.Burst; g++ {
				dg.Add(1)
				go func(g int) {
					defer dg.Done()
					for k := 0; k < perG; k++ {
						blockHandler(&apiv1.Event{Topic: "block", Data: &apiv1.BlockEvent{Slot: phase0.Slot(curSlot), Block: burstRoot(i, g, k)}})
					}
				}(g)
			}
			dg.Wait()
			close(stop)
			wg.Wait()
			hp.failNext = true
			hp.failKind = 0
			for g := 0; g < op.Burst; g++ {
				for k := 0; k < perG; k++ {
					before := hp.calls
					got, err := svc.BlockRootToSlot(ctx, burstRoot(i, g, k))
					if hp.calls != before || err != nil || uint64(got) != curSlot {
						return "entry-lost-during-clean", fmt.Sprintf("op %d burst: block event for the current slot %d delivered while a clean was running is no longer cached (lookup: slot %d, err %v, node asked: %v)", i, curSlot, got, err, hp.calls != before), st
					}
				}
			}
			hp.failNext = false
			// the clean runs also act as a clean for the model
			curEpoch := curSlot / c.SlotsPerEpoch
			if curEpoch >= retentionEpochs {
				minSlot := (curEpoch - retentionEpochs) * c.SlotsPerEpoch
				for r := range model {
					if c.RootSlot[r] < minSlot {
						delete(model, r)
						maybe[r] = true
					}
				}
			}
		case "advance":
			curSlot += op.Epochs*c.SlotsPerEpoch + op.Slots
			clock.SetSlot(curSlot, 3*time.Second)
		case "clean":
			if !sched.Fire(cleanJob) {
				return "harness", "clean job vanished", st
			}
			curEpoch := curSlot / c.SlotsPerEpoch
			if curEpoch >= retentionEpochs {
				minSlot := (curEpoch - retentionEpochs) * c.SlotsPerEpoch
				for r := range model {
					if c.RootSlot[r] < minSlot {
						// older than the window: may be removed
						delete(model, r)
						maybe[r] = true
					} else if curEpoch > retentionEpochs {
						st.cleanAfterRetention = true
						if c.RootSlot[r] == minSlot {
							st.boundaryKept = true
						}
					}
				}
			}
		case "colookup":
			// Several goroutines look roots up at once (strategies of different duties ask for the slot of
			// the same head root, or of different roots, at the same moment).  The provider holds the first
			// request until the other lookups have been started, then answers or fails all of them; it reads
			// the requested block id when it answers, as an HTTP client does when it builds the request.
			rootFor := func(k int) int {
				if op.Spread {
					return (op.Root + k) % len(c.RootSlot)
				}
				return op.Root
			}
			where := fmt.Sprintf("op %d concurrent lookup x%d (first root %d, spread %v)", i, op.Lookups, op.Root, op.Spread)
			known, old := map[int]bool{}, map[int]bool{}
			allKnown := true
			for k := 0; k < op.Lookups; k++ {
				known[rootFor(k)], old[rootFor(k)] = model[rootFor(k)], maybe[rootFor(k)]
				allKnown = allKnown && model[rootFor(k)]
			}
			hp.failNext, hp.failKind = op.Fail, op.FailKind
			hp.hold, hp.arrived = make(chan struct{}), make(chan struct{}, op.Lookups)
			type res struct {
				root int
				slot phase0.Slot
				err  error
			}
			results := make(chan res, op.Lookups)
			before := hp.calls
			lookup := func(k int) {
				got, err := svc.BlockRootToSlot(ctx, c.root(rootFor(k)))
				results <- res{rootFor(k), got, err}
			}
			var collected []res
			go lookup(0)
			select {
			case <-hp.arrived:
			case r := <-results: // answered from the cache
				collected = append(collected, r)
			case <-time.After(10 * time.Second):
				return "harness", where + ": first lookup neither asked the node nor returned", st
			}
			for k := 1; k < op.Lookups; k++ {
				go lookup(k)
			}
			// give the later lookups the chance to reach the provider or whatever they wait on; this only
			// affects which interleaving is explored, not the judgement
			for k := 1; k < op.Lookups; k++ {
				select {
				case <-hp.arrived:
				case r := <-results:
					collected = append(collected, r)
				case <-time.After(20 * time.Millisecond):
				}
			}
			close(hp.hold)
			for len(collected) < op.Lookups {
				select {
				case r := <-results:
					collected = append(collected, r)
				case <-time.After(10 * time.Second):
					return "lookup-never-returned", where + ": a lookup did not return after the node answered", st
				}
			}
			hp.hold, hp.arrived = nil, nil
			hp.failNext = false
			consulted := hp.calls - before
			st.coLookup = true
			if op.Spread {
				st.coLookupSpread = true
			}
			for _, r := range collected {
				want := c.RootSlot[r.root]
				if r.err == nil && uint64(r.slot) != want {
					if op.Fail {
						return "failed-fetch-returned-slot", fmt.Sprintf("%s: the header fetch failed but the lookup of root %d returned slot %d without error", where, r.root, r.slot), st
					}
					return "miss-wrong-slot", fmt.Sprintf("%s: the lookup of root %d (true slot %d) returned slot %d", where, r.root, want, r.slot), st
				}
				switch {
				case known[r.root]:
					if r.err != nil {
						return "hit-error", fmt.Sprintf("%s: cached entry of root %d returned error %v", where, r.root, r.err), st
					}
				case op.Fail && !old[r.root] && consulted > 0 && !op.Spread:
					// not cached, node asked and failing: nothing can be known
					if r.err == nil {
						return "failed-fetch-returned-slot", fmt.Sprintf("%s: the header fetch failed but a lookup returned slot %d without error", where, r.slot), st
					}
				case !op.Fail:
					if r.err != nil {
						return "miss-error", fmt.Sprintf("%s: fetch succeeded but the lookup of root %d returned error %v", where, r.root, r.err), st
					}
				}
			}
			if allKnown && consulted != 0 {
				return "retained-entry-refetched", where + ": entries inside the retention window were not answered from the cache", st
			}
			switch {
			case allKnown:
			case !op.Fail:
				for r := range known {
					delete(maybe, r)
					model[r] = true
				}
			case op.Spread:
				// failed fetches of several roots: nothing may have been cached; roots that were not known stay
				// unknown and later lookups judge them
			case !old[op.Root] && consulted == 0:
				// answered (correctly, see above) without the node: the cache knew more than the model
				st.knewMore = true
				model[op.Root] = true
			case !old[op.Root]:
				st.coLookupFailed = true
				want := c.RootSlot[op.Root]
				// the failure must not have been cached as a slot
				b2 := hp.calls
				got2, err2 := svc.BlockRootToSlot(ctx, c.root(op.Root))
				if hp.calls == b2 {
					return "failed-fetch-cached", fmt.Sprintf("%s: after a failed fetch the next lookup was answered from the cache (%d,%v)", where, got2, err2), st
				}
				if err2 != nil || uint64(got2) != want {
					return "miss-wrong-slot", fmt.Sprintf("%s: lookup after failed fetch returned (%d,%v)", where, got2, err2), st
				}
				model[op.Root] = true
			}
		case "lookup":
			want := c.RootSlot[op.Root]
			hp.failNext = op.Fail
			hp.failKind = op.FailKind
			before := hp.calls
			got, err := svc.BlockRootToSlot(ctx, c.root(op.Root))
			consulted := hp.calls - before
			where := fmt.Sprintf("op %d lookup(root %d, true slot %d)", i, op.Root, want)
			switch {
			case model[op.Root]:
				if consulted != 0 {
					return "retained-entry-refetched", where + ": entry inside the retention window was not answered from the cache", st
				}
				if err != nil {
					return "hit-error", where + ": cached entry returned error " + err.Error(), st
				}
				if uint64(got) != want {
					return "hit-wrong-slot", fmt.Sprintf("%s: cached lookup returned slot %d", where, got), st
				}
			default:
				if consulted == 0 {
					if !maybe[op.Root] {
						// The cache answered for a root the model never saw delivered.  Knowing more than the
						// model is harmless only if it is right.
						if err != nil || uint64(got) != want {
							return "unknown-root-answered-wrongly", fmt.Sprintf("%s: root never delivered by an event or a fetch was answered (%d,%v) without asking the beacon node", where, got, err), st
						}
						st.knewMore = true
						model[op.Root] = true
						break
					}
					// still cached although old: allowed; must be right
					if err != nil || uint64(got) != want {
						return "hit-wrong-slot", fmt.Sprintf("%s: old cached entry returned (%d,%v)", where, got, err), st
					}
					break
				}
				if consulted > 1 {
					return "miss-multiple-fetches", where + ": more than one header request for a single lookup", st
				}
				if op.Fail {
					st.failedFetch = true
					if err == nil {
						return "failed-fetch-returned-slot", fmt.Sprintf("%s: header fetch failed but slot %d was returned without error", where, got), st
					}
					// nothing may be cached: stays unknown/maybe
					delete(maybe, op.Root)
					// verify immediately that the failure was not cached as a slot
					hp.failNext = false
					b2 := hp.calls
					got2, err2 := svc.BlockRootToSlot(ctx, c.root(op.Root))
					if hp.calls == b2 {
						return "failed-fetch-cached", fmt.Sprintf("%s: after a failed fetch the next lookup was answered from the cache (%d,%v)", where, got2, err2), st
					}
					if err2 != nil || uint64(got2) != want {
						return "miss-wrong-slot", fmt.Sprintf("%s: lookup after failed fetch returned (%d,%v)", where, got2, err2), st
					}
					model[op.Root] = true
					break
				}
				if want != 0 {
					st.missNonZero = true
				}
				if err != nil {
					return "miss-error", where + ": fetch succeeded but lookup returned error " + err.Error(), st
				}
				if uint64(got) != want {
					return "miss-wrong-slot", fmt.Sprintf("%s: fetched slot is %d but lookup returned %d", where, want, got), st
				}
				delete(maybe, op.Root)
				model[op.Root] = true
				// a miss must be a hit from now on
				b2 := hp.calls
				got2, err2 := svc.BlockRootToSlot(ctx, c.root(op.Root))
				if hp.calls != b2 {
					return "miss-not-cached", where + ": a fetched slot was not cached (second lookup asked the node again)", st
				}
				if err2 != nil || uint64(got2) != want {
					return "hit-wrong-slot", fmt.Sprintf("%s: lookup after miss returned (%d,%v)", where, got2, err2), st
				}
				st.hitAfterMiss = true
			}
		}
	}
	return "", "", st
}

func check(t ev.TB, c *Case) {
	sig, detail, st := runAndJudge(c)
	nontrivial := st.missNonZero && st.cleanAfterRetention
	var labels []string
	if st.missNonZero {
		labels = append(labels, "miss-nonzero-slot")
	}
	if st.cleanAfterRetention {
		labels = append(labels, "clean-with-retained-entry-beyond-epoch-64")
	}
	if st.boundaryKept {
		labels = append(labels, "entry-exactly-at-retention-boundary")
	}
	if st.failedFetch {
		labels = append(labels, "failed-fetch")
	}
	if st.burst {
		labels = append(labels, "block-events-concurrent-with-clean")
	}
	if st.coLookup {
		labels = append(labels, "concurrent-lookups-of-one-root")
	}
	if st.coLookupSpread {
		labels = append(labels, "concurrent-lookups-of-different-roots")
	}
	if st.coLookupFailed {
		labels = append(labels, "concurrent-misses-with-failing-fetch")
	}
	if st.optimistic {
		labels = append(labels, "execution-optimistic-block-event")
	}
	if c.ZeroRoot > 0 {
		labels = append(labels, "zero-root-in-universe")
	}
	if st.knewMore {
		labels = append(labels, "cache-knew-a-root-the-model-did-not(correctly)")
	}
	for i := range c.NonCanonical {
		if c.NonCanonical[i] {
			labels = append(labels, "root-served-as-non-canonical")
			break
		}
	}
	for i, p := range c.Parent {
		if p >= 0 && c.RootSlot[i] > c.RootSlot[p]+1 {
			labels = append(labels, "parent-link-across-skipped-slots")
			break
		}
	}
	ev.Case(nontrivial, ev.Hash(c), labels...)
	if nontrivial {
		ev.Sample(c)
	}
	if sig == "harness" {
		t.Fatalf("harness problem: %s", detail)
	}
	if sig != "" {
		ev.Violation(t, sig, c, "%s", detail)
	}
}

func TestCacheHistory(t *testing.T) {
	rapid.Check(t, func(t *rapid.T) {
		c := genCase(t)
		check(t, &c)
	})
}

// TestReplay re-executes a saved case without the property library.
func TestReplay(t *testing.T) {
	f := ev.ReplayFile()
	if f == "" {
		t.Skip("no replay file")
	}
	var c Case
	if _, err := ev.LoadCase(f, &c); err != nil {
		t.Fatalf("cannot load %s: %v", f, err)
	}
	check(t, &c)
	ev.ReplayPassed()
}
