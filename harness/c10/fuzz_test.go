package c10

import (
	"sort"
	"strings"
	"testing"

	"verifharness/internal/ev"
)

// The examples of docs/executionconfig.md and docs/execlayer.md with the
// elided hex strings written out.
var docExamples = func() []string {
	fee := "0x0123456789abcdef0123456789abcdef01234567"
	fee2 := "0xfedcba9876543210fedcba9876543210fedcba98"
	f1 := hexOf(0x11, 20)
	f2 := hexOf(0x22, 20)
	rk1 := hexOf(0xac, 48)
	rk2 := hexOf(0x8b, 48)
	v1 := hexOf(0x81, 48) // "0x8021…8bbe"
	v2 := hexOf(0x8c, 48) // "0x8c27…0821"
	base := `"version":2,"fee_recipient":"` + fee + `","gas_limit":"30000000","min_value":"0.1","relays":{"https://relay1.com/":{"public_key":"` + rk1 +
		`","min_value":"0.2"},"https://relay2.com/":{"public_key":"` + rk2 + `","fee_recipient":"` + fee2 + `","gas_limit":"60000000"}}`
	legacyRelays := `"builder":{"enabled":true,"relays":["https://relay1.example.com/","https://relay2.example.com/"]}`
	return []string{
		`{"version":2}`,
		`{"version":2,"fee_recipient":"` + fee + `"}`,
		`{"version":2,"fee_recipient":"` + fee + `","gas_limit":"30000000"}`,
		`{"version":2,"fee_recipient":"` + fee + `","gas_limit":"30000000","relays":{"https://relay1.com/":{},"https://relay2.com/":{}}}`,
		`{"version":2,"fee_recipient":"` + fee + `","gas_limit":"30000000","min_value":"0.1","relays":{"https://relay1.com/":{"public_key":"` + rk1 + `"},"https://relay2.com/":{"public_key":"` + rk2 + `"}}}`,
		`{` + base + `}`,
		`{` + base + `,"proposers":[{"proposer":"` + v1 + `","fee_recipient":"` + f1 + `"},{"proposer":"` + v2 + `","min_value":"0.4"}]}`,
		`{` + base + `,"proposers":[{"proposer":"` + v1 + `","relays":{"https://relay1.com/":{"min_value":"0.5"}}}]}`,
		`{` + base + `,"proposers":[{"proposer":"` + v1 + `","relays":{"https://relay2.com/":{"disabled":true},"https://relay3.com/":{}}}]}`,
		`{` + base + `,"proposers":[{"proposer":"` + v1 + `","reset_relays":true,"relays":{"https://relay3.com/":{},"https://relay4.com/":{}}}]}`,
		`{` + base + `,"proposers":[{"proposer":"^Wallet 1/.*$","fee_recipient":"` + f1 + `"},{"proposer":"^Wallet 2/Account [123]$","min_value":"0.4"},{"proposer":"^Wallet 2/Account 4$","reset_relays":true}]}`,
		`{"version":2,"fee_recipient":"` + fee + `","proposers":[{"proposer":"Wallet 1/.*","fee_recipient":"` + f1 + `"},{"proposer":"Wallet 1/Account 2","fee_recipient":"` + f2 + `"}]}`,
		`{"version":2,"fee_recipient":"` + fee + `","proposers":[{"proposer":"Wallet 1/Account 2","fee_recipient":"` + f2 + `"},{"proposer":"Wallet 1/.*","fee_recipient":"` + f1 + `"}]}`,
		`{"version":2,"grace":"1000","relays":{"https://relay1.com/":{"grace":"500"}},"proposers":[{"proposer":"` + v1 + `","grace":"250","gas_limit":"36000000","relays":{"https://relay1.com/":{"grace":"100","min_value":"0.000000000000000001"}}}]}`,
		// legacy
		`{"proposer_config":{"` + v1 + `":{"fee_recipient":"` + f1 + `"},"` + v2 + `":{"fee_recipient":"` + f2 + `"}},"default_config":{"fee_recipient":"` + fee + `"}}`,
		`{"proposer_config":{"` + v1 + `":{"fee_recipient":"` + f1 + `",` + legacyRelays + `},"` + v2 + `":{"fee_recipient":"` + f2 + `","builder":{"enabled":false}}},"default_config":{"fee_recipient":"` + fee + `",` + legacyRelays + `}}`,
		`{"proposer_config":{"` + v1 + `":{"fee_recipient":"` + f1 + `","gas_limit":"100000000",` + legacyRelays + `},"` + v2 + `":{"fee_recipient":"` + f2 + `","gas_limit":"100000000","builder":{"enabled":false}}},"default_config":{"fee_recipient":"` + fee + `","gas_limit":"100000000",` + legacyRelays + `}}`,
		`{"default_config":{"fee_recipient":"` + fee + `","builder":{"enabled":true,"grace":"1000","relays":["https://relay1.example.com/"]}}}`,
	}
}()

// fuzzValidators is the fixed set of validators every fuzzed document is
// resolved for, plus every public key the document itself names.
func fuzzValidators(d *Doc) []Validator {
	vs := []Validator{
		{PubKey: keyPool[0], Wallet: "Wallet 1", Account: "Account 1"},
		{PubKey: keyPool[1], Wallet: "Wallet 1", Account: "Account 2"},
		{PubKey: keyPool[2], Wallet: "Wallet 2", Account: "Account 1"},
		{PubKey: keyPool[3], Wallet: "Wallet 2", Account: "Account 4"},
		{PubKey: keyPool[4], Wallet: "Wallet 1", Account: "Account 10"},
		{PubKey: keyPool[5], Wallet: "XWallet 1", Account: "Account 1"},
		{PubKey: keyPool[0], NoAccount: true},
		{PubKey: keyPool[5], NoAccount: true},
	}
	seen := map[string]bool{}
	add := func(k string) {
		k = strings.ToLower(k)
		if !seen[k] && len(seen) < 8 {
			seen[k] = true
			vs = append(vs, Validator{PubKey: k, Wallet: "Wallet 3", Account: "Account 7"})
		}
	}
	if d.V2 != nil {
		for i := range d.V2.Proposers {
			if strings.HasPrefix(d.V2.Proposers[i].Proposer, "0x") {
				add(d.V2.Proposers[i].Proposer)
			}
		}
	}
	if d.V1 != nil {
		for i := range d.V1.Proposers {
			add(d.V1.Proposers[i].Key)
		}
	}
	return vs
}

// FuzzExecutionConfig mutates documents at the byte level.  Texts that are
// still documents of the documented form (StrictDoc) are judged exactly like
// generated ones: parse, resolve every validator against the reference, round
// trip.  Other texts are not judged here (crashes on them belong to C16).
func FuzzExecutionConfig(f *testing.F) {
	for _, s := range docExamples {
		f.Add([]byte(s))
	}
	f.Fuzz(func(t *testing.T, data []byte) {
		if len(data) > 1<<14 {
			return
		}
		d, err := StrictDoc(data)
		if err != nil {
			ev.Label("fuzz-input-outside-documented-form")
			return
		}
		c := &Case{Doc: *d, FallbackFee: hexOf(0xfb, 20), FallbackGas: 30000000, MarshalAfter: len(data)%2 == 1}
		c.Validators = fuzzValidators(d)
		type rep struct{ sig, detail string }
		var reps []rep
		// the fuzzer's own text is what is parsed (not a re-rendering of it)
		st := evaluate(c, data, func(sig, detail string) { reps = append(reps, rep{sig, detail}) })
		labels := []string{"fuzz-input-judged"}
		for l := range st.labels {
			labels = append(labels, l)
		}
		sort.Strings(labels)
		ev.Case(st.nontrivial, ev.Hash(c), labels...)
		for _, r := range reps {
			ev.Violation(t, r.sig, c, "%s\ndocument: %s", r.detail, data)
		}
	})
}

// TestDocExamples runs the documentation's own examples through the oracle
// (they are also the seed corpus of the fuzz target).
func TestDocExamples(t *testing.T) {
	for i, s := range docExamples {
		d, err := StrictDoc([]byte(s))
		if err != nil {
			t.Fatalf("harness problem: documentation example %d is outside the judged forms: %v\n%s", i, err, s)
		}
		c := &Case{Doc: *d, FallbackFee: hexOf(0xfb, 20), FallbackGas: 30000000}
		c.Validators = fuzzValidators(d)
		st := evaluate(c, []byte(s), func(sig, detail string) {
			ev.Violation(t, sig, c, "documentation example %d: %s\ndocument: %s", i, detail, s)
		})
		ev.Case(st.nontrivial, ev.Hash(c), "documentation-example")
	}
}
