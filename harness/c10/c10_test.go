// Package c10 decides property C10: the proposer settings Vouch uses are those
// given by the documented precedence of the execution configuration, and a
// configuration survives a marshal/unmarshal round trip with the same meaning.
// Subject: the real blockrelay.UnmarshalJSON and the v1/v2 ExecutionConfigurator.
package c10

import (
	"context"
	"encoding/json"
	"fmt"
	"reflect"
	"runtime"
	"sort"
	"strings"
	"testing"

	"github.com/attestantio/go-eth2-client/spec/bellatrix"
	"github.com/attestantio/go-eth2-client/spec/phase0"
	"github.com/attestantio/vouch/services/beaconblockproposer"
	"github.com/attestantio/vouch/services/blockrelay"
	"github.com/google/uuid"
	"github.com/rs/zerolog"
	"github.com/shopspring/decimal"
	e2types "github.com/wealdtech/go-eth2-types/v2"
	e2wtypes "github.com/wealdtech/go-eth2-wallet-types/v2"
	"pgregory.net/rapid"

	"verifharness/internal/ev"
)

// ---- account double (what a wallet hands to Vouch: a named account in a named wallet)

type fakeKey []byte

func (k fakeKey) Marshal() []byte             { return []byte(k) }
func (k fakeKey) Aggregate(e2types.PublicKey) {}
func (k fakeKey) Copy() e2types.PublicKey     { return append(fakeKey(nil), k...) }

type fakeWallet struct{ name string }

func (w *fakeWallet) ID() uuid.UUID { return uuid.UUID{} }
func (w *fakeWallet) Type() string  { return "fake" }
func (w *fakeWallet) Name() string  { return w.name }
func (w *fakeWallet) Version() uint { return 1 }
func (w *fakeWallet) Accounts(context.Context) <-chan e2wtypes.Account {
	ch := make(chan e2wtypes.Account)
	close(ch)
	return ch
}

type fakeAccount struct {
	name   string
	wallet *fakeWallet
	key    fakeKey
}

func (a *fakeAccount) ID() uuid.UUID                { return uuid.UUID{} }
func (a *fakeAccount) Name() string                 { return a.name }
func (a *fakeAccount) PublicKey() e2types.PublicKey { return a.key }
func (a *fakeAccount) Wallet() e2wtypes.Wallet      { return a.wallet }

func accountOf(v *Validator) e2wtypes.Account {
	if v.NoAccount {
		return nil
	}
	k := key48(v.PubKey)
	return &fakeAccount{name: v.Account, wallet: &fakeWallet{name: v.Wallet}, key: fakeKey(k[:])}
}

// ---- comparison of an obtained configuration with a reference resolution

// item is one differing item between an obtained configuration and a reference
// resolution.
type item struct{ name, detail string }

// diff returns the items in which got differs from the reference resolution
// (none if it is the reference resolution).
func diff(got *beaconblockproposer.ProposerConfig, want *RefOut) []item {
	if got == nil {
		return []item{{"nil-config", "nil configuration returned without error"}}
	}
	var res []item
	if [20]byte(got.FeeRecipient) != want.Fee {
		res = append(res, item{"fee-recipient", fmt.Sprintf("fee recipient %x, reference %x", got.FeeRecipient, want.Fee)})
	}
	seen := map[string]bool{}
	rs := append([]*beaconblockproposer.RelayConfig(nil), got.Relays...)
	sort.SliceStable(rs, func(i, k int) bool { return rs[i] != nil && rs[k] != nil && rs[i].Address < rs[k].Address })
	for _, r := range rs {
		if r == nil {
			res = append(res, item{"relay-nil", "nil relay entry"})
			continue
		}
		if seen[r.Address] {
			res = append(res, item{"relay-duplicate", "relay " + r.Address + " appears twice"})
			continue
		}
		seen[r.Address] = true
		w, ok := want.Relays[r.Address]
		if !ok {
			res = append(res, item{"relay-extra", "relay " + r.Address + " is used, the reference does not use it"})
			continue
		}
		if [20]byte(r.FeeRecipient) != w.Fee {
			res = append(res, item{"relay-fee-recipient", fmt.Sprintf("relay %s fee recipient %x, reference %x", r.Address, r.FeeRecipient, w.Fee)})
		}
		if r.GasLimit != w.Gas {
			res = append(res, item{"relay-gas-limit", fmt.Sprintf("relay %s gas limit %d, reference %d", r.Address, r.GasLimit, w.Gas)})
		}
		if r.Grace != w.Grace {
			res = append(res, item{"relay-grace", fmt.Sprintf("relay %s grace %s, reference %s", r.Address, r.Grace, w.Grace)})
		}
		if r.MinValue.Cmp(decimal.NewFromBigInt(w.MinWei, 0)) != 0 {
			res = append(res, item{"relay-min-value", fmt.Sprintf("relay %s min value %s wei, reference %s wei", r.Address, r.MinValue.String(), w.MinWei)})
		}
		if (r.PublicKey == nil) != (w.PubKey == nil) || r.PublicKey != nil && [48]byte(*r.PublicKey) != *w.PubKey {
			res = append(res, item{"relay-public-key", fmt.Sprintf("relay %s public key %v, reference %v", r.Address, r.PublicKey, w.PubKey)})
		}
	}
	var missing []string
	for a := range want.Relays {
		if !seen[a] {
			missing = append(missing, a)
		}
	}
	sort.Strings(missing)
	for _, a := range missing {
		res = append(res, item{"relay-missing", "relay " + a + " of the reference is not used"})
	}
	return res
}

// sameConfig compares two obtained configurations (used only to decide whether
// the round trip changed anything for a validator).
func sameConfig(a, b *beaconblockproposer.ProposerConfig) bool {
	if a == nil || b == nil {
		return a == b
	}
	if a.FeeRecipient != b.FeeRecipient || len(a.Relays) != len(b.Relays) {
		return false
	}
	idx := map[string]*beaconblockproposer.RelayConfig{}
	for _, r := range a.Relays {
		if r != nil {
			idx[r.Address] = r
		}
	}
	for _, r := range b.Relays {
		if r == nil {
			return false
		}
		o := idx[r.Address]
		if o == nil || o.FeeRecipient != r.FeeRecipient || o.GasLimit != r.GasLimit || o.Grace != r.Grace ||
			o.MinValue.Cmp(r.MinValue) != 0 || !reflect.DeepEqual(o.PublicKey, r.PublicKey) {
			return false
		}
	}
	return true
}

// topFrame names the innermost vouch frame of the current panic.
func topFrame() string {
	pcs := make([]uintptr, 64)
	n := runtime.Callers(3, pcs)
	frames := runtime.CallersFrames(pcs[:n])
	for {
		f, more := frames.Next()
		if strings.Contains(f.Function, "attestantio/vouch/") {
			return f.Function[strings.LastIndex(f.Function, "/")+1:]
		}
		if !more {
			return "unknown"
		}
	}
}

type lookup struct {
	cfg   *beaconblockproposer.ProposerConfig
	err   error
	panic string
}

func doLookup(cfg blockrelay.ExecutionConfigurator, v *Validator, fbFee bellatrix.ExecutionAddress, fbGas uint64) (l lookup) {
	defer func() {
		if r := recover(); r != nil {
			l.panic = fmt.Sprintf("%s: %v", topFrame(), r)
		}
	}()
	l.cfg, l.err = cfg.ProposerConfig(context.Background(), accountOf(v), phase0.BLSPubKey(key48(v.PubKey)), fbFee, fbGas)
	return
}

func safeUnmarshal(data []byte) (cfg blockrelay.ExecutionConfigurator, err error, pan string) {
	defer func() {
		if r := recover(); r != nil {
			pan = fmt.Sprintf("%s: %v", topFrame(), r)
		}
	}()
	cfg, err = blockrelay.UnmarshalJSON(data)
	return
}

func safeMarshal(cfg blockrelay.ExecutionConfigurator) (b []byte, err error, pan string) {
	defer func() {
		if r := recover(); r != nil {
			pan = fmt.Sprintf("%s: %v", topFrame(), r)
		}
	}()
	b, err = json.Marshal(cfg)
	return
}

const nilAccountPlaceholder = "<unknown>/<unknown>"

// finding is one named disagreement.
type finding struct {
	sig    string
	named  bool // sig names a recognised deviation (not prefixed with the version)
	detail string
}

// judgeOne compares one lookup with the reference and returns the
// disagreements (none if the result is acceptable).
//
// Where the result is not acceptable it is also compared with the reference
// under two recognisable deviations ("disabled" ignored for relays that are not
// inherited; "^"/"$" glued textually onto an alternation).  The reading that
// comes closest names the finding; whatever still differs from that reading is
// reported as a further finding under the name of the differing item.  That keeps
// the signatures stable when two deviations meet in one case.
// With force >= 0 only that reading is compared (used after the round trip: what
// differs from the reading that explained the answer before the round trip is
// what the round trip changed).
func judgeOne(d *Doc, v *Validator, fbFee string, fbGas uint64, l lookup, force int) ([]finding, *RefOut, int) {
	ref := Resolve(d, v, fbFee, fbGas, refOpts{})
	if l.panic != "" {
		return []finding{{"panic:" + strings.SplitN(l.panic, ":", 2)[0], true, "lookup panicked: " + l.panic}}, ref, -1
	}
	if l.err != nil {
		return []finding{{"resolve-error", false, "lookup of a well-formed document failed: " + l.err.Error()}}, ref, -1
	}
	accept := []refOpts{{}}
	if v.NoAccount {
		// Nothing documents what an account specifier means for a validator whose
		// account is unknown to the caller: both "never matches" and "matches
		// the name Vouch prints for it" are accepted.
		accept = append(accept, refOpts{nilAccountName: nilAccountPlaceholder})
	}
	type cand struct {
		o    refOpts
		sigs []string
	}
	var cands []cand
	for _, dg := range []cand{
		{refOpts{}, nil},
		{refOpts{keepDisabledNew: true}, []string{"disabled-new-relay-used"}},
		{refOpts{textualAnchors: true}, []string{"account-alternation-not-anchored"}},
		{refOpts{keepDisabledNew: true, textualAnchors: true}, []string{"disabled-new-relay-used", "account-alternation-not-anchored"}},
	} {
		for _, a := range accept {
			o := dg.o
			o.nilAccountName = a.nilAccountName
			cands = append(cands, cand{o, dg.sigs})
		}
	}
	best, bestWeight := -1, 0
	var bestItems []item
	baseDetail := ""
	for i, c := range cands {
		if force >= 0 && i != force {
			continue
		}
		items := diff(l.cfg, Resolve(d, v, fbFee, fbGas, c.o))
		if i == 0 && len(items) > 0 {
			baseDetail = items[0].detail
		}
		// closest reading = smallest weight of differing items (a relay too many
		// or too few counts like all of its five fields); earlier readings win ties
		w := 0
		for _, it := range items {
			switch it.name {
			case "relay-extra", "relay-missing", "relay-nil", "relay-duplicate", "nil-config":
				w += 5
			default:
				w++
			}
		}
		if best < 0 || w < bestWeight {
			best, bestWeight, bestItems = i, w, items
		}
	}
	var res []finding
	for _, s := range cands[best].sigs {
		if force < 0 {
			res = append(res, finding{s, true, baseDetail})
		}
	}
	reported := map[string]bool{}
	for _, it := range bestItems {
		if !reported[it.name] {
			reported[it.name] = true
			res = append(res, finding{it.name, false, it.detail})
		}
	}
	return res, ref, best
}

type caseStats struct {
	nontrivial bool
	labels     map[string]bool
}

func (s *caseStats) label(l string) { s.labels[l] = true }

// evaluate runs a case against the real code.  report is called for every
// disagreement; it returns true if the search may continue (known finding).
func evaluate(c *Case, doc []byte, report func(sig, detail string)) caseStats {
	st := caseStats{labels: map[string]bool{}}
	d := &c.Doc
	fbFee := bellatrix.ExecutionAddress(addr20(c.FallbackFee))
	prefix := "v2-"
	if d.V1 != nil {
		prefix = "v1-"
		st.label("legacy")
	} else {
		st.label("v2")
	}

	cfg, err, pan := safeUnmarshal(doc)
	if pan != "" {
		report("panic:"+strings.SplitN(pan, ":", 2)[0], "parsing panicked: "+pan)
		return st
	}
	if err != nil {
		report(prefix+"parse-error", "a document in the documented form was rejected: "+err.Error())
		return st
	}

	roundTrip := func() blockrelay.ExecutionConfigurator {
		b, err, pan := safeMarshal(cfg)
		if pan != "" {
			report("panic:"+strings.SplitN(pan, ":", 2)[0], "marshalling panicked: "+pan)
			return nil
		}
		if err != nil {
			report("roundtrip-marshal-error", "marshal failed: "+err.Error())
			return nil
		}
		cfg2, err, pan := safeUnmarshal(b)
		if pan != "" {
			report("panic:"+strings.SplitN(pan, ":", 2)[0], "parsing the marshalled form panicked: "+pan)
			return nil
		}
		if err != nil {
			report(prefix+"roundtrip-unparseable", fmt.Sprintf("the marshalled form %s is rejected: %v", b, err))
			return nil
		}
		return cfg2
	}
	var cfg2 blockrelay.ExecutionConfigurator
	if !c.MarshalAfter {
		cfg2 = roundTrip()
	}

	firsts := make([]lookup, len(c.Validators))
	firstSigs := make([][]string, len(c.Validators))
	firstBest := make([]int, len(c.Validators))
	matchedSome, levels2, own, dflt, relaysSeen := false, false, false, false, false
	for i := range c.Validators {
		v := &c.Validators[i]
		l := doLookup(cfg, v, fbFee, c.FallbackGas)
		firsts[i] = l
		fs, ref, best := judgeOne(d, v, c.FallbackFee, c.FallbackGas, l, -1)
		firstBest[i] = best
		for _, f := range fs {
			sig := f.sig
			if !f.named {
				sig = prefix + sig
			}
			firstSigs[i] = append(firstSigs[i], f.sig)
			report(sig, fmt.Sprintf("validator %d (%s %q/%q): %s; obtained %s; reference %s", i, v.PubKey[:10], v.Wallet, v.Account, f.detail, show(l.cfg), ref))
		}
		// statistics
		if ref.Matched >= 0 {
			matchedSome = true
			if ref.MaxLevels >= 2 {
				levels2 = true
			}
			if ref.ByAccount {
				st.label("matched-by-account")
			} else if d.V2 != nil {
				st.label("matched-by-pubkey")
			}
			if ref.Matches >= 2 {
				st.label("several-entries-match")
			}
			if ref.Matched >= 1 {
				st.label("match-is-not-first-entry")
			}
			if ref.Reset {
				st.label("reset-relays")
			}
			if ref.DisabledInh > 0 {
				st.label("disabled-inherited-relay")
			}
			if ref.DisabledNew > 0 {
				st.label("disabled-new-relay")
			}
			if ref.NewRelays > 0 {
				st.label("new-relay")
			}
			if ref.MaxLevels >= 3 {
				st.label(fmt.Sprintf("levels>=%d", min(ref.MaxLevels, 4)))
			}
		}
		if d.V1 != nil {
			if ref.LegacyOwn {
				own = true
			} else {
				dflt = true
			}
			if ref.LegacyDiffer {
				st.label("legacy-per-field-reading-differs")
			}
		}
		if len(ref.Relays) > 0 {
			relaysSeen = true
		}
		if v.NoAccount {
			st.label("validator-without-account")
		}
	}
	if d.V2 != nil {
		st.nontrivial = matchedSome && levels2
	} else {
		st.nontrivial = own && dflt && relaysSeen
	}

	if c.MarshalAfter {
		cfg2 = roundTrip()
	}
	if cfg2 != nil {
		for i := range c.Validators {
			v := &c.Validators[i]
			l2 := doLookup(cfg2, v, fbFee, c.FallbackGas)
			if l2.panic == "" && l2.err == nil && firsts[i].err == nil && firsts[i].panic == "" && sameConfig(l2.cfg, firsts[i].cfg) {
				continue // same meaning as before the round trip (judged above)
			}
			fs, ref, _ := judgeOne(d, v, c.FallbackFee, c.FallbackGas, l2, firstBest[i])
			for _, f := range fs {
				already := false
				for _, s := range firstSigs[i] {
					already = already || s == f.sig
				}
				if already {
					continue // the same deviation as before the round trip
				}
				sig := f.sig
				if !strings.HasPrefix(sig, "panic:") {
					sig = prefix + "roundtrip-" + sig
				}
				report(sig, fmt.Sprintf("after marshal/unmarshal, validator %d (%s %q/%q): %s; obtained %s; before the round trip %s; reference %s",
					i, v.PubKey[:10], v.Wallet, v.Account, f.detail, show(l2.cfg), show(firsts[i].cfg), ref))
			}
		}
	}
	docLabels(d, &st)
	return st
}

func docLabels(d *Doc, st *caseStats) {
	if d.V2 == nil {
		return
	}
	deep := func(s string) {
		if _, fp, ok := strings.Cut(s, "."); ok && len(strings.TrimRight(fp, "0")) > 16 {
			st.label("min-value-17-18-decimals")
		}
	}
	deep(d.V2.MinValue)
	for i := range d.V2.Relays {
		deep(d.V2.Relays[i].MinValue)
	}
	for i := range d.V2.Proposers {
		p := &d.V2.Proposers[i]
		deep(p.MinValue)
		for k := range p.Relays {
			deep(p.Relays[k].MinValue)
		}
		if !strings.HasPrefix(p.Proposer, "0x") {
			body, hs, he := stripAnchors(p.Proposer)
			if !hs || !he {
				st.label("account-regex-implicit-anchor")
			}
			if topLevelAlternation(body) {
				st.label("account-regex-top-level-alternation")
			}
		}
	}
}

func show(c *beaconblockproposer.ProposerConfig) string {
	if c == nil {
		return "<nil>"
	}
	var b strings.Builder
	fmt.Fprintf(&b, "fee=%x relays=[", c.FeeRecipient)
	rs := append([]*beaconblockproposer.RelayConfig(nil), c.Relays...)
	sort.Slice(rs, func(i, k int) bool { return rs[i] != nil && rs[k] != nil && rs[i].Address < rs[k].Address })
	for _, r := range rs {
		if r == nil {
			b.WriteString("{nil}")
			continue
		}
		pk := "-"
		if r.PublicKey != nil {
			pk = fmt.Sprintf("%x", r.PublicKey[:4])
		}
		fmt.Fprintf(&b, "{%s fee=%x gas=%d grace=%s min=%s pk=%s}", r.Address, r.FeeRecipient[:4], r.GasLimit, r.Grace, r.MinValue.String(), pk)
	}
	b.WriteString("]")
	return b.String()
}

func check(t ev.TB, c *Case) {
	zerolog.SetGlobalLevel(zerolog.Disabled)
	doc := Render(&c.Doc)
	// harness self-check: the rendered text is a document of the documented form
	// and reads back as the same document.
	back, err := StrictDoc(doc)
	if err != nil {
		t.Fatalf("harness problem: generated document is outside the judged forms: %v\n%s", err, doc)
	}
	if !reflect.DeepEqual(normalise(back), normalise(&c.Doc)) {
		t.Fatalf("harness problem: document does not read back identically\n%s", doc)
	}
	type rep struct{ sig, detail string }
	var reps []rep
	st := evaluate(c, doc, func(sig, detail string) { reps = append(reps, rep{sig, detail}) })
	labels := make([]string, 0, len(st.labels))
	for l := range st.labels {
		labels = append(labels, l)
	}
	sort.Strings(labels)
	ev.Case(st.nontrivial, ev.Hash(c), labels...)
	if st.nontrivial {
		ev.Sample(c)
	}
	for _, r := range reps {
		ev.Violation(t, r.sig, c, "%s\ndocument: %s", r.detail, doc)
	}
}

// normalise maps empty and nil slices onto each other.
func normalise(d *Doc) *Doc {
	b, _ := json.Marshal(d)
	var x Doc
	_ = json.Unmarshal(b, &x)
	return &x
}

func TestPrecedence(t *testing.T) {
	rapid.Check(t, func(t *rapid.T) {
		c := genCase(t)
		check(t, &c)
	})
}

// TestReplay re-executes a saved case without the property library.
func TestReplay(t *testing.T) {
	f := ev.ReplayFile()
	if f == "" {
		t.Skip("no replay file")
	}
	var c Case
	if _, err := ev.LoadCase(f, &c); err != nil {
		t.Fatalf("cannot load %s: %v", f, err)
	}
	check(t, &c)
	ev.ReplayPassed()
}
