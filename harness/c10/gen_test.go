package c10

import (
	"fmt"
	"strconv"
	"strings"

	"pgregory.net/rapid"
)

// Case is one generated case: a document, the validators queried against it and
// the fallback values of Vouch's own configuration.
type Case struct {
	Doc         Doc         `json:"doc"`
	Validators  []Validator `json:"validators"`
	FallbackFee string      `json:"fallback_fee"`
	FallbackGas uint64      `json:"fallback_gas"`
	// MarshalAfter: the round trip is taken after the lookups instead of before.
	MarshalAfter bool `json:"marshal_after,omitempty"`
}

func hexOf(b byte, n int) string { return "0x" + strings.Repeat(fmt.Sprintf("%02x", b), n) }

var (
	feePool = []string{hexOf(0x11, 20), hexOf(0x22, 20), hexOf(0x33, 20), hexOf(0x44, 20), hexOf(0xaa, 20),
		"0x0123456789abcdef0123456789ABCDEF01234567", "0xfedcba9876543210fedcba9876543210fedcba98"}
	zeroFee     = hexOf(0, 20)
	keyPool     = []string{hexOf(0x81, 48), hexOf(0x8c, 48), hexOf(0xa3, 48), hexOf(0xb4, 48), hexOf(0x95, 48), hexOf(0xa6, 48)}
	relayKeys   = []string{hexOf(0xac, 48), hexOf(0x8b, 48), hexOf(0xa1, 48)}
	relayPool   = []string{"https://relay1.com/", "https://relay2.com/", "https://relay3.com/", "https://relay4.com/", "http://relay5.example.com:8080"}
	gasPool     = []string{"1", "30000000", "30000000", "60000000", "36000000", "100000000", "9223372036854775808", "18446744073709551615"}
	gracePool   = []string{"0", "1", "500", "1000", "2500", "86400000"}
	minPool     = []string{"0", "0.1", "0.2", "0.4", "0.5", "1", "0.000000000000000001", "0.05", "32"}
	walletPool  = []string{"Wallet 1", "Wallet 2", "Wallet 1", "Wallet 2", "Wallet 10", "XWallet 1"}
	accountPool = []string{"Account 1", "Account 2", "Account 3", "Account 4", "Account 10", "Account 1X", "Account 1", "Account 2"}
	wParts      = []string{"Wallet 1", "Wallet 2", "Wallet [12]", ".*", "(Wallet 1|Wallet 2)", "Wallet 1.*", "Wallet .+"}
	aParts      = []string{"Account 1", "Account 2", "Account 4", ".*", "Account [123]", "Account (1|2)", "Account 1.*", "Account .+"}
)

func genMinValue(t *rapid.T) string {
	if rapid.IntRange(0, 2).Draw(t, "minPooled") == 0 {
		return rapid.SampledFrom(minPool).Draw(t, "minPool")
	}
	ip := rapid.SampledFrom([]string{"0", "0", "0", "1", "2", "10", "123"}).Draw(t, "minInt")
	nd := rapid.SampledFrom([]int{0, 1, 2, 3, 9, 15, 16, 17, 18, 18}).Draw(t, "minDecimals")
	if nd == 0 {
		return ip
	}
	var b strings.Builder
	for i := 0; i < nd; i++ {
		b.WriteByte(byte('0' + rapid.IntRange(0, 9).Draw(t, "d")))
	}
	return ip + "." + b.String()
}

func genGas(t *rapid.T) string {
	if rapid.IntRange(0, 3).Draw(t, "gasPooled") != 0 {
		return rapid.SampledFrom(gasPool).Draw(t, "gasPool")
	}
	return strconv.FormatUint(rapid.Uint64().Draw(t, "gas"), 10)
}

func genFee(t *rapid.T) string {
	if rapid.IntRange(0, 39).Draw(t, "feeZero") == 0 {
		return zeroFee
	}
	return rapid.SampledFrom(feePool).Draw(t, "fee")
}

// genFields draws an independent presence pattern.
func genFields(t *rapid.T, withKey bool, density int) Fields {
	var f Fields
	present := func(l string) bool { return rapid.IntRange(0, 99).Draw(t, l) < density }
	if present("hasFee") {
		f.Fee = genFee(t)
	}
	if present("hasGas") {
		f.Gas = genGas(t)
	}
	if present("hasGrace") {
		f.Grace = rapid.SampledFrom(gracePool).Draw(t, "grace")
	}
	if present("hasMin") {
		f.MinValue = genMinValue(t)
	}
	if withKey && present("hasKey") {
		f.PubKey = rapid.SampledFrom(relayKeys).Draw(t, "relayKey")
	}
	return f
}

func genRegex(t *rapid.T) string {
	one := func() string {
		if rapid.IntRange(0, 11).Draw(t, "any") == 0 {
			return ".*"
		}
		return rapid.SampledFrom(wParts).Draw(t, "wPart") + "/" + rapid.SampledFrom(aParts).Draw(t, "aPart")
	}
	body := one()
	if rapid.IntRange(0, 5).Draw(t, "alt") == 0 {
		// top-level alternation, only written without explicit anchors
		return body + "|" + one()
	}
	switch rapid.IntRange(0, 4).Draw(t, "anchors") {
	case 0, 1:
		return body
	case 2:
		return "^" + body + "$"
	case 3:
		return "^" + body
	default:
		return body + "$"
	}
}

func distinctAddrs(t *rapid.T, label string, max int) []string {
	n := rapid.IntRange(0, max).Draw(t, label)
	perm := rapid.Permutation(relayPool).Draw(t, label+"Perm")
	return perm[:n]
}

func genV2(t *rapid.T) *V2 {
	density := rapid.SampledFrom([]int{25, 50, 50, 75}).Draw(t, "density")
	d := &V2{Fields: genFields(t, false, density)}
	for _, a := range distinctAddrs(t, "nRelays", 4) {
		d.Relays = append(d.Relays, Relay{Addr: a, Fields: genFields(t, true, density)})
	}
	nProp := rapid.IntRange(0, 4).Draw(t, "nProposers")
	for i := 0; i < nProp; i++ {
		p := Proposer{Fields: genFields(t, false, density)}
		if rapid.Bool().Draw(t, "byKey") {
			p.Proposer = rapid.SampledFrom(keyPool[:4]).Draw(t, "proposerKey")
			if rapid.IntRange(0, 7).Draw(t, "upper") == 0 {
				p.Proposer = "0x" + strings.ToUpper(p.Proposer[2:])
			}
		} else {
			p.Proposer = genRegex(t)
		}
		p.Reset = rapid.IntRange(0, 3).Draw(t, "reset") == 0
		for _, a := range distinctAddrs(t, "nPRelays", 3) {
			pr := PRelay{Addr: a, Fields: genFields(t, true, density)}
			pr.Disabled = rapid.IntRange(0, 3).Draw(t, "disabled") == 0
			p.Relays = append(p.Relays, pr)
		}
		d.Proposers = append(d.Proposers, p)
	}
	return d
}

func genV1Entry(t *rapid.T) V1Entry {
	e := V1Entry{Fee: genFee(t)}
	if rapid.Bool().Draw(t, "hasGas") {
		// "0" cannot be told from "absent" in the legacy form; not generated
		if e.Gas = genGas(t); e.Gas == "0" {
			e.Gas = "1"
		}
	}
	if rapid.IntRange(0, 3).Draw(t, "hasBuilder") != 0 {
		b := &V1Builder{Enabled: rapid.IntRange(0, 2).Draw(t, "enabled") != 0}
		if rapid.Bool().Draw(t, "hasGrace") {
			b.Grace = rapid.SampledFrom(gracePool).Draw(t, "grace")
		}
		b.Relays = distinctAddrs(t, "nRelays", 3)
		if b.Enabled && len(b.Relays) == 0 {
			b.Relays = []string{relayPool[0]}
		}
		e.Builder = b
	}
	return e
}

func genV1(t *rapid.T) *V1 {
	d := &V1{Default: genV1Entry(t)}
	n := rapid.IntRange(0, 3).Draw(t, "nProposers")
	keys := rapid.Permutation(keyPool[:4]).Draw(t, "keys")
	for i := 0; i < n; i++ {
		d.Proposers = append(d.Proposers, V1Prop{Key: keys[i], V1Entry: genV1Entry(t)})
	}
	return d
}

func genCase(t *rapid.T) Case {
	c := Case{
		FallbackFee:  rapid.SampledFrom([]string{hexOf(0xfb, 20), hexOf(0x01, 20)}).Draw(t, "fallbackFee"),
		FallbackGas:  rapid.SampledFrom([]uint64{30000000, 36000000, 1}).Draw(t, "fallbackGas"),
		MarshalAfter: rapid.Bool().Draw(t, "marshalAfter"),
	}
	if rapid.IntRange(0, 4).Draw(t, "legacy") == 0 {
		c.Doc = Doc{Version: 0, V1: genV1(t)}
	} else {
		c.Doc = Doc{Version: 2, V2: genV2(t)}
	}
	nVal := rapid.IntRange(1, 6).Draw(t, "nValidators")
	for i := 0; i < nVal; i++ {
		v := Validator{
			PubKey:  rapid.SampledFrom(keyPool).Draw(t, "validatorKey"),
			Wallet:  rapid.SampledFrom(walletPool).Draw(t, "wallet"),
			Account: rapid.SampledFrom(accountPool).Draw(t, "account"),
		}
		if rapid.IntRange(0, 6).Draw(t, "noAccount") == 0 {
			v = Validator{PubKey: v.PubKey, NoAccount: true}
		}
		c.Validators = append(c.Validators, v)
	}
	return c
}
