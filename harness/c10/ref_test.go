package c10

// Reference resolver, written from the C10 statement and the documentation:
//
//   version 2: the first proposer entry that matches the validator (public key,
//   or account regular expression anchored at both ends against
//   "<wallet>/<account>") is the only one used.  Per relay and per field the
//   value is the proposer-relay value, else the proposer value, else (inherited
//   relays only) the relay-level default, else the top-level default, else the
//   fallback (0 for grace and minimum value).  Disabled relays are removed, relays
//   only named by the proposer are added, reset_relays discards the inherited
//   relays.  The validator's own fee recipient: proposer, else top level, else
//   fallback.
//
//   legacy: the validator's own entry, else the default entry; gas limit from
//   that entry else the fallback; relays of that entry's builder if enabled.

import (
	"encoding/hex"
	"fmt"
	"math/big"
	"regexp"
	"sort"
	"strconv"
	"strings"
	"time"
)

// Validator is a queried validator.
type Validator struct {
	PubKey    string `json:"pubkey"`
	Wallet    string `json:"wallet,omitempty"`
	Account   string `json:"account,omitempty"`
	NoAccount bool   `json:"no_account,omitempty"` // the caller has no account object (nil)
}

// RefRelay is a resolved relay.
type RefRelay struct {
	Addr   string
	Fee    [20]byte
	Gas    uint64
	Grace  time.Duration
	MinWei *big.Int
	PubKey *[48]byte
}

// RefOut is a resolved proposer configuration.
type RefOut struct {
	Fee    [20]byte
	Relays map[string]*RefRelay

	// statistics for the evidence
	Matched      int // index of the entry used, -1 if none
	Matches      int // number of entries that would match
	ByAccount    bool
	MaxLevels    int // largest number of levels supplying the same field of one relay
	Reset        bool
	DisabledInh  int
	DisabledNew  int
	NewRelays    int
	LegacyOwn    bool
	LegacyDiffer bool // the per-field reading of docs/execlayer.md would give another answer
}

type refOpts struct {
	textualAnchors  bool   // diagnostic: "^" / "$" glued on textually where missing
	keepDisabledNew bool   // diagnostic: "disabled" ignored for relays that are not inherited
	nilAccountName  string // name used for a validator without account object ("" = account entries never match)
}

func addr20(s string) (a [20]byte) {
	b, err := hex.DecodeString(strings.TrimPrefix(s, "0x"))
	if err != nil || len(b) != 20 {
		panic("harness: bad address " + s)
	}
	copy(a[:], b)
	return
}

func key48(s string) (k [48]byte) {
	b, err := hex.DecodeString(strings.TrimPrefix(s, "0x"))
	if err != nil || len(b) != 48 {
		panic("harness: bad key " + s)
	}
	copy(k[:], b)
	return
}

func parseU64(s string) uint64 {
	v, err := strconv.ParseUint(s, 10, 64)
	if err != nil {
		panic("harness: bad uint " + s)
	}
	return v
}

// weiOf converts a decimal ether amount with at most 18 decimals to wei, exactly.
func weiOf(s string) *big.Int {
	ip, fp, _ := strings.Cut(s, ".")
	if len(fp) > 18 {
		panic("harness: more than 18 decimals " + s)
	}
	fp += strings.Repeat("0", 18-len(fp))
	v, ok := new(big.Int).SetString(ip+fp, 10)
	if !ok {
		panic("harness: bad decimal " + s)
	}
	return v
}

func first(vals ...string) (string, int) {
	n := 0
	res := ""
	for i := len(vals) - 1; i >= 0; i-- {
		if vals[i] != "" {
			res = vals[i]
			n++
		}
	}
	return res, n
}

// accountMatches implements "anchored account regular expression".
func accountMatches(re string, name string, textual bool) bool {
	if textual {
		if !strings.HasPrefix(re, "^") {
			re = "^" + re
		}
		if !strings.HasSuffix(re, "$") {
			re += "$"
		}
		return regexp.MustCompile(re).MatchString(name)
	}
	body, _, _ := stripAnchors(re)
	return regexp.MustCompile(`^(?:` + body + `)$`).MatchString(name)
}

func proposerMatches(p *Proposer, v *Validator, o refOpts) bool {
	if strings.HasPrefix(p.Proposer, "0x") {
		return strings.EqualFold(p.Proposer, v.PubKey)
	}
	name := v.Wallet + "/" + v.Account
	if v.NoAccount {
		if o.nilAccountName == "" {
			return false
		}
		name = o.nilAccountName
	}
	return accountMatches(p.Proposer, name, o.textualAnchors)
}

func resolveV2(d *V2, v *Validator, fbFee string, fbGas uint64, o refOpts) *RefOut {
	out := &RefOut{Relays: map[string]*RefRelay{}, Matched: -1}
	var p *Proposer
	for i := range d.Proposers {
		if proposerMatches(&d.Proposers[i], v, o) {
			out.Matches++
			if p == nil {
				p = &d.Proposers[i]
				out.Matched = i
				out.ByAccount = !strings.HasPrefix(p.Proposer, "0x")
			}
		}
	}
	if p == nil {
		p = &Proposer{}
	}
	fbGasS := strconv.FormatUint(fbGas, 10)
	fee, _ := first(p.Fee, d.Fee, fbFee)
	out.Fee = addr20(fee)
	out.Reset = p.Reset

	prelay := map[string]*PRelay{}
	for i := range p.Relays {
		prelay[p.Relays[i].Addr] = &p.Relays[i]
	}
	build := func(addr string, pr *PRelay, r *Relay) {
		if pr == nil {
			pr = &PRelay{}
		}
		if r == nil {
			r = &Relay{}
		}
		rr := &RefRelay{Addr: addr}
		levels := func(n int) {
			if n > out.MaxLevels {
				out.MaxLevels = n
			}
		}
		s, n := first(pr.Fee, p.Fee, r.Fee, d.Fee, fbFee)
		rr.Fee = addr20(s)
		levels(n - 1) // the fallback is not a level of the document
		s, n = first(pr.Gas, p.Gas, r.Gas, d.Gas, fbGasS)
		rr.Gas = parseU64(s)
		levels(n - 1)
		s, n = first(pr.Grace, p.Grace, r.Grace, d.Grace, "0")
		rr.Grace = time.Duration(parseU64(s)) * time.Millisecond
		levels(n - 1)
		s, n = first(pr.MinValue, p.MinValue, r.MinValue, d.MinValue, "0")
		rr.MinWei = weiOf(s)
		levels(n - 1)
		if s, _ = first(pr.PubKey, r.PubKey); s != "" {
			k := key48(s)
			rr.PubKey = &k
		}
		out.Relays[addr] = rr
	}
	inherited := map[string]bool{}
	if !p.Reset {
		for i := range d.Relays {
			r := &d.Relays[i]
			inherited[r.Addr] = true
			pr := prelay[r.Addr]
			if pr != nil && pr.Disabled {
				out.DisabledInh++
				continue
			}
			build(r.Addr, pr, r)
		}
	}
	for i := range p.Relays {
		pr := &p.Relays[i]
		if inherited[pr.Addr] {
			continue
		}
		if pr.Disabled {
			out.DisabledNew++
			if !o.keepDisabledNew {
				continue
			}
		}
		out.NewRelays++
		build(pr.Addr, pr, nil)
	}
	return out
}

func resolveV1(d *V1, v *Validator, fbGas uint64) *RefOut {
	out := &RefOut{Relays: map[string]*RefRelay{}, Matched: -1}
	e := &d.Default
	for i := range d.Proposers {
		if strings.EqualFold(d.Proposers[i].Key, v.PubKey) {
			e = &d.Proposers[i].V1Entry
			out.Matched = i
			out.Matches = 1
			out.LegacyOwn = true
		}
	}
	out.Fee = addr20(e.Fee)
	gas := fbGas
	if e.Gas != "" {
		gas = parseU64(e.Gas)
	}
	if e.Builder != nil && e.Builder.Enabled {
		for _, a := range e.Builder.Relays {
			rr := &RefRelay{Addr: a, Fee: out.Fee, Gas: gas, MinWei: new(big.Int)}
			if e.Builder.Grace != "" {
				rr.Grace = time.Duration(parseU64(e.Builder.Grace)) * time.Millisecond
			}
			out.Relays[a] = rr
		}
	}
	if out.LegacyOwn {
		// would the per-field reading differ?
		if e.Gas == "" && d.Default.Gas != "" && len(out.Relays) > 0 {
			out.LegacyDiffer = true
		}
		if e.Builder == nil && d.Default.Builder != nil && d.Default.Builder.Enabled {
			out.LegacyDiffer = true
		}
	}
	return out
}

// Resolve resolves a validator against a document.
func Resolve(d *Doc, v *Validator, fbFee string, fbGas uint64, o refOpts) *RefOut {
	if d.V2 != nil {
		return resolveV2(d.V2, v, fbFee, fbGas, o)
	}
	return resolveV1(d.V1, v, fbGas)
}

func (r *RefOut) String() string {
	var b strings.Builder
	fmt.Fprintf(&b, "fee=%x relays=[", r.Fee)
	addrs := make([]string, 0, len(r.Relays))
	for a := range r.Relays {
		addrs = append(addrs, a)
	}
	sort.Strings(addrs)
	for _, a := range addrs {
		x := r.Relays[a]
		pk := "-"
		if x.PubKey != nil {
			pk = fmt.Sprintf("%x", x.PubKey[:4])
		}
		fmt.Fprintf(&b, "{%s fee=%x gas=%d grace=%s min=%s pk=%s}", a, x.Fee[:4], x.Gas, x.Grace, x.MinWei, pk)
	}
	b.WriteString("]")
	return b.String()
}
