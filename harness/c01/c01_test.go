// Package c01 decides property C01: for every validator and epoch the signer is
// asked for at most one attestation signature, whatever the history of
// (re-)deliveries, overlaps, failures and retries; every signing request carries
// the duty's slot, target epoch = epoch of that slot, source <= target and the
// data the beacon node returned; data that does not meet this is refused
// without any signature being requested.
// Subject: the real services/attester/standard.Service.Attest, one instance per
// history; optionally with a real attestationdata strategy in front of node
// doubles.
package c01

import (
	"bytes"
	"context"
	"crypto/sha256"
	"encoding/binary"
	"errors"
	"fmt"
	"io"
	"runtime"
	"sort"
	"sync"
	"sync/atomic"
	"testing"
	"time"

	eth2client "github.com/attestantio/go-eth2-client"
	"github.com/attestantio/go-eth2-client/api"
	"github.com/attestantio/go-eth2-client/spec/phase0"
	"github.com/attestantio/vouch/services/attester"
	standardattester "github.com/attestantio/vouch/services/attester/standard"
	nullmetrics "github.com/attestantio/vouch/services/metrics/null"
	"github.com/google/uuid"
	"github.com/rs/zerolog"
	zerologger "github.com/rs/zerolog/log"
	e2types "github.com/wealdtech/go-eth2-types/v2"
	e2wtypes "github.com/wealdtech/go-eth2-wallet-types/v2"
	"pgregory.net/rapid"

	"verifharness/internal/ev"
	"verifharness/internal/fakes"
)

// ---------------------------------------------------------------------------
// Case

// Committee is one committee of a duty's slot.
type Committee struct {
	Index uint64 `json:"index"`
	Size  uint64 `json:"size"`
}

// DVal is one (validator, committee, position) tuple of a duty.
type DVal struct {
	V   uint64 `json:"v"`
	C   int    `json:"c"` // index into Run.Committees
	Pos uint64 `json:"pos"`
}

// NodeData is what one beacon node answers for the attestation data request.
type NodeData struct {
	Err         bool   `json:"err,omitempty"`
	Slot        uint64 `json:"slot"`
	SourceEpoch uint64 `json:"source_epoch"`
	TargetEpoch uint64 `json:"target_epoch"`
	Seed        uint64 `json:"seed"` // roots are derived from it
}

// Run is one call of Attest.
type Run struct {
	Slot       uint64      `json:"slot"`
	Committees []Committee `json:"committees"`
	Vals       []DVal      `json:"vals"`
	// Nodes: answers of the beacon node(s).  With Provider "direct" only
	// Nodes[0] is used; with a strategy there is one entry per node.
	Nodes []NodeData `json:"nodes"`
	// Fault: "" | "accounts-error" (the by-index lookup fails) | "accounts-epoch-error" (the
	// whole-epoch lookup fails) | "accounts-error-both" | "sign-error" | "sign-batch-error" (requests for two or more accounts fail, single-account requests succeed) | "zero-sigs" | "no-account" | "submit-error"
	// (a failing data fetch is Nodes[i].Err).
	Fault string `json:"fault,omitempty"`
	Mask  []bool `json:"mask,omitempty"` // per Vals entry: zero signature / no account
	// Origin documents how the generator produced the run: new | redeliver | reassign | copy.
	Origin string `json:"origin,omitempty"`
}

// Op is one step of the history: a single Attest or k overlapping ones.
type Op struct {
	Runs []Run `json:"runs"`
}

// Case is a history against one service instance.
type Case struct {
	SlotsPerEpoch uint64 `json:"slots_per_epoch"`
	// Provider: "direct" (the double is the attester's data provider) or
	// "first" | "best" | "majority" (real strategy in front of node doubles).
	Provider string `json:"provider"`
	NodesN   int    `json:"nodes_n"`
	// Pool: the account manager holds accounts for validators 0..Pool-1 (and any other validator of the history).
	Pool int `json:"pool,omitempty"`
	// LogLevel of the attester service and the strategy: "" (disabled) | "info" | "debug" | "trace".
	LogLevel string `json:"log_level,omitempty"`
	Ops      []Op   `json:"ops"`
}

// ---------------------------------------------------------------------------
// Doubles.  Every call is attributed to its run through a context value.

type runKey struct{}

func runOf(ctx context.Context) int {
	if v, ok := ctx.Value(runKey{}).(int); ok {
		return v
	}
	return -1
}

type pubKey struct{ b [48]byte }

func (p *pubKey) Marshal() []byte               { return p.b[:] }
func (p *pubKey) Aggregate(_ e2types.PublicKey) {}
func (p *pubKey) Copy() e2types.PublicKey       { c := *p; return &c }

type account struct {
	v  uint64
	id uuid.UUID
	pk *pubKey
}

func newAccount(v uint64) *account {
	a := &account{v: v, pk: &pubKey{}}
	a.pk.b[0] = 0xac
	binary.LittleEndian.PutUint64(a.pk.b[1:9], v)
	copy(a.id[:], a.pk.b[:16])
	return a
}

func (a *account) ID() uuid.UUID                { return a.id }
func (a *account) Name() string                 { return fmt.Sprintf("validator-%d", a.v) }
func (a *account) PublicKey() e2types.PublicKey { return a.pk }

func accountValidator(a e2wtypes.Account) (uint64, bool) {
	if a == nil {
		return 0, false
	}
	b := a.PublicKey().Marshal()
	if len(b) != 48 || b[0] != 0xac {
		return 0, false
	}
	return binary.LittleEndian.Uint64(b[1:9]), true
}

func seedRoot(seed uint64, tag byte) phase0.Root {
	var r phase0.Root
	binary.LittleEndian.PutUint64(r[:8], seed)
	r[8] = tag
	h := sha256.Sum256(r[:9])
	copy(r[:], h[:])
	return r
}

func (n NodeData) data() *phase0.AttestationData {
	return &phase0.AttestationData{
		Slot:            phase0.Slot(n.Slot),
		BeaconBlockRoot: seedRoot(n.Seed, 1),
		Source:          &phase0.Checkpoint{Epoch: phase0.Epoch(n.SourceEpoch), Root: seedRoot(n.Seed, 2)},
		Target:          &phase0.Checkpoint{Epoch: phase0.Epoch(n.TargetEpoch), Root: seedRoot(n.Seed, 3)},
	}
}

func digest(slot uint64, committee uint64, root phase0.Root, srcEpoch uint64, srcRoot phase0.Root, tgtEpoch uint64, tgtRoot phase0.Root) [32]byte {
	var buf bytes.Buffer
	var u [8]byte
	for _, x := range []uint64{slot, committee, srcEpoch, tgtEpoch} {
		binary.LittleEndian.PutUint64(u[:], x)
		buf.Write(u[:])
	}
	buf.Write(root[:])
	buf.Write(srcRoot[:])
	buf.Write(tgtRoot[:])
	return sha256.Sum256(buf.Bytes())
}

const sigMarker = 0xa7

func makeSig(v uint64, seq int, d [32]byte) phase0.BLSSignature {
	var s phase0.BLSSignature
	s[0] = sigMarker
	binary.LittleEndian.PutUint64(s[1:9], v)
	binary.LittleEndian.PutUint32(s[9:13], uint32(seq))
	copy(s[16:48], d[:])
	return s
}

func decodeSig(s phase0.BLSSignature) (v uint64, seq int, d [32]byte, ok bool) {
	if s[0] != sigMarker {
		return 0, 0, d, false
	}
	copy(d[:], s[16:48])
	return binary.LittleEndian.Uint64(s[1:9]), int(binary.LittleEndian.Uint32(s[9:13])), d, true
}

// world holds the doubles and the log of one history.
type world struct {
	mu   sync.Mutex
	runs []*Run // flattened
	pool int

	signReqs []signReq
	submits  []submitRec
	dataOut  map[int][]*phase0.AttestationData // run -> data handed out by node doubles (nil entry = error)

	// rendezvous of overlapping runs inside the data provider
	barriers map[int]*barrier // run -> barrier of its op
	timeouts int
}

type signReq struct {
	run        int
	slot       uint64
	accounts   []uint64
	committees []uint64
	root       phase0.Root
	srcEpoch   uint64
	srcRoot    phase0.Root
	tgtEpoch   uint64
	tgtRoot    phase0.Root
	sigs       []phase0.BLSSignature
	failed     bool
}

type submitRec struct {
	run  int
	atts []*phase0.Attestation
}

type barrier struct {
	mu      sync.Mutex
	need    int
	arrived map[int]bool
	ch      chan struct{}
}

func newBarrier(n int) *barrier {
	return &barrier{need: n, arrived: map[int]bool{}, ch: make(chan struct{})}
}

// arrive blocks until all participants have arrived; false on timeout.
func (b *barrier) arrive(run int) bool {
	b.mu.Lock()
	if !b.arrived[run] {
		b.arrived[run] = true
		if len(b.arrived) == b.need {
			close(b.ch)
		}
	}
	b.mu.Unlock()
	select {
	case <-b.ch:
		return true
	case <-time.After(20 * time.Second):
		return false
	}
}

// node is one beacon node double (attestation data provider).
type node struct {
	w   *world
	idx int
}

func (n *node) AttestationData(ctx context.Context, opts *api.AttestationDataOpts) (*api.Response[*phase0.AttestationData], error) {
	w := n.w
	run := runOf(ctx)
	if run < 0 || run >= len(w.runs) {
		return nil, errors.New("node double: call outside a run")
	}
	w.mu.Lock()
	b := w.barriers[run]
	w.mu.Unlock()
	if b != nil {
		if !b.arrive(run) {
			w.mu.Lock()
			w.timeouts++
			w.mu.Unlock()
		}
	}
	r := w.runs[run]
	nd := r.Nodes[n.idx%len(r.Nodes)]
	w.mu.Lock()
	defer w.mu.Unlock()
	if nd.Err {
		w.dataOut[run] = append(w.dataOut[run], nil)
		return nil, errors.New("scripted attestation data failure")
	}
	d := nd.data()
	d.Index = opts.CommitteeIndex
	w.dataOut[run] = append(w.dataOut[run], d)
	cp := *d
	src, tgt := *d.Source, *d.Target
	cp.Source, cp.Target = &src, &tgt
	return &api.Response[*phase0.AttestationData]{Data: &cp, Metadata: map[string]any{}}, nil
}

func (n *node) Name() string    { return fmt.Sprintf("node%d", n.idx) }
func (n *node) Address() string { return fmt.Sprintf("node%d:5052", n.idx) }

type accountsProvider struct{ w *world }

// universe is the set of validators the account manager holds active accounts
// for: the whole pool of the history, not just the validators of one duty.
func (p *accountsProvider) universe() map[uint64]bool {
	u := map[uint64]bool{}
	for v := 0; v < p.w.pool; v++ {
		u[uint64(v)] = true
	}
	for _, r := range p.w.runs {
		for _, v := range r.Vals {
			u[v.V] = true
		}
	}
	return u
}

func (p *accountsProvider) missing(r *Run) map[uint64]bool {
	missing := map[uint64]bool{}
	if r.Fault == "no-account" {
		for i, v := range r.Vals {
			if i < len(r.Mask) && r.Mask[i] {
				missing[v.V] = true
			}
		}
	}
	return missing
}

func (p *accountsProvider) ValidatingAccountsForEpoch(ctx context.Context, _ phase0.Epoch) (map[phase0.ValidatorIndex]e2wtypes.Account, error) {
	run := runOf(ctx)
	if run < 0 || run >= len(p.w.runs) {
		return nil, errors.New("accounts double: call outside a run")
	}
	r := p.w.runs[run]
	if r.Fault == "accounts-epoch-error" || r.Fault == "accounts-error-both" {
		return nil, errors.New("scripted accounts failure (whole epoch)")
	}
	missing := p.missing(r)
	res := map[phase0.ValidatorIndex]e2wtypes.Account{}
	for v := range p.universe() {
		if !missing[v] {
			res[phase0.ValidatorIndex(v)] = newAccount(v)
		}
	}
	return res, nil
}

func (p *accountsProvider) ValidatingAccountsForEpochByIndex(ctx context.Context, _ phase0.Epoch, indices []phase0.ValidatorIndex) (map[phase0.ValidatorIndex]e2wtypes.Account, error) {
	run := runOf(ctx)
	if run < 0 || run >= len(p.w.runs) {
		return nil, errors.New("accounts double: call outside a run")
	}
	r := p.w.runs[run]
	if r.Fault == "accounts-error" || r.Fault == "accounts-error-both" {
		return nil, errors.New("scripted accounts failure (by index)")
	}
	missing := p.missing(r)
	res := map[phase0.ValidatorIndex]e2wtypes.Account{}
	for _, i := range indices {
		if !missing[uint64(i)] {
			res[i] = newAccount(uint64(i))
		}
	}
	return res, nil
}

func (p *accountsProvider) SyncCommitteeAccountsForEpoch(context.Context, phase0.Epoch) (map[phase0.ValidatorIndex]e2wtypes.Account, error) {
	return map[phase0.ValidatorIndex]e2wtypes.Account{}, nil
}

func (p *accountsProvider) SyncCommitteeAccountsForEpochByIndex(context.Context, phase0.Epoch, []phase0.ValidatorIndex) (map[phase0.ValidatorIndex]e2wtypes.Account, error) {
	return map[phase0.ValidatorIndex]e2wtypes.Account{}, nil
}

type signerD struct{ w *world }

func (s *signerD) SignBeaconAttestations(ctx context.Context,
	accounts []e2wtypes.Account,
	slot phase0.Slot,
	committeeIndices []phase0.CommitteeIndex,
	blockRoot phase0.Root,
	sourceEpoch phase0.Epoch,
	sourceRoot phase0.Root,
	targetEpoch phase0.Epoch,
	targetRoot phase0.Root,
) ([]phase0.BLSSignature, error) {
	w := s.w
	run := runOf(ctx)
	w.mu.Lock()
	defer w.mu.Unlock()
	if len(committeeIndices) != len(accounts) {
		return nil, fmt.Errorf("signer double: %d accounts but %d committee indices", len(accounts), len(committeeIndices))
	}
	var r *Run
	if run >= 0 && run < len(w.runs) {
		r = w.runs[run]
	}
	zero := map[uint64]bool{}
	if r != nil && r.Fault == "zero-sigs" {
		for i, v := range r.Vals {
			if i < len(r.Mask) && r.Mask[i] {
				zero[v.V] = true
			}
		}
	}
	seq := len(w.signReqs)
	req := signReq{run: run, slot: uint64(slot), root: blockRoot, srcEpoch: uint64(sourceEpoch), srcRoot: sourceRoot,
		tgtEpoch: uint64(targetEpoch), tgtRoot: targetRoot, sigs: make([]phase0.BLSSignature, len(accounts))}
	for i, a := range accounts {
		v, ok := accountValidator(a)
		if !ok {
			v = ^uint64(0)
		}
		req.accounts = append(req.accounts, v)
		req.committees = append(req.committees, uint64(committeeIndices[i]))
		if ok && !zero[v] {
			req.sigs[i] = makeSig(v, seq, digest(uint64(slot), uint64(committeeIndices[i]), blockRoot, uint64(sourceEpoch), sourceRoot, uint64(targetEpoch), targetRoot))
		}
	}
	if r != nil && (r.Fault == "sign-error" || (r.Fault == "sign-batch-error" && len(accounts) >= 2)) {
		req.failed = true
		w.signReqs = append(w.signReqs, req)
		return nil, errors.New("scripted signing failure")
	}
	w.signReqs = append(w.signReqs, req)
	return append([]phase0.BLSSignature(nil), req.sigs...), nil
}

// SignBeaconAttestation is the single-account signing interface of services/signer.
func (s *signerD) SignBeaconAttestation(ctx context.Context,
	account e2wtypes.Account,
	slot phase0.Slot,
	committeeIndex phase0.CommitteeIndex,
	blockRoot phase0.Root,
	sourceEpoch phase0.Epoch,
	sourceRoot phase0.Root,
	targetEpoch phase0.Epoch,
	targetRoot phase0.Root,
) (phase0.BLSSignature, error) {
	sigs, err := s.SignBeaconAttestations(ctx, []e2wtypes.Account{account}, slot, []phase0.CommitteeIndex{committeeIndex}, blockRoot, sourceEpoch, sourceRoot, targetEpoch, targetRoot)
	if err != nil {
		return phase0.BLSSignature{}, err
	}
	return sigs[0], nil
}

type submitterD struct{ w *world }

func (s *submitterD) SubmitAttestations(ctx context.Context, atts []*phase0.Attestation) error {
	w := s.w
	run := runOf(ctx)
	w.mu.Lock()
	defer w.mu.Unlock()
	cp := make([]*phase0.Attestation, len(atts))
	for i, a := range atts {
		if a == nil {
			continue
		}
		c := *a
		c.AggregationBits = append([]byte(nil), a.AggregationBits...)
		if a.Data != nil {
			d := *a.Data
			if a.Data.Source != nil {
				x := *a.Data.Source
				d.Source = &x
			}
			if a.Data.Target != nil {
				x := *a.Data.Target
				d.Target = &x
			}
			c.Data = &d
		}
		cp[i] = &c
	}
	w.submits = append(w.submits, submitRec{run: run, atts: cp})
	if run >= 0 && run < len(w.runs) && w.runs[run].Fault == "submit-error" {
		return errors.New("scripted submission failure")
	}
	return nil
}

type specProvider struct{ spe uint64 }

func (s specProvider) Spec(context.Context, *api.SpecOpts) (*api.Response[map[string]any], error) {
	return &api.Response[map[string]any]{Data: map[string]any{"SLOTS_PER_EPOCH": s.spe}, Metadata: map[string]any{}}, nil
}

// ---------------------------------------------------------------------------
// Logging: vouch's services take their logger from the zerolog global logger;
// it writes to io.Discard in this process, and the level is drawn per case so
// that code inside "if e := log.Trace(); e.Enabled()" guards really executes.

func init() { zerologger.Logger = zerolog.New(io.Discard) }

func levelOf(s string) zerolog.Level {
	switch s {
	case "trace":
		return zerolog.TraceLevel
	case "debug":
		return zerolog.DebugLevel
	case "info":
		return zerolog.InfoLevel
	}
	return zerolog.Disabled
}

// useLogLevel sets zerolog's global level for the case (cases of one process run
// one after the other) and returns the level for WithLogLevel and a restore func.
func useLogLevel(s string) (zerolog.Level, func()) {
	lvl := levelOf(s)
	zerolog.SetGlobalLevel(lvl)
	return lvl, func() { zerolog.SetGlobalLevel(zerolog.Disabled) }
}

func genLogLevel(t *rapid.T) string {
	return rapid.SampledFrom([]string{"", "", "info", "debug", "trace", "trace"}).Draw(t, "logLevel")
}

// ---------------------------------------------------------------------------
// Generator

type genState struct {
	spe      uint64
	pool     int
	haveMax  bool
	maxEpoch uint64
	hist     []Run
	nodesN   int
	provider string
}

func (g *genState) note(epoch uint64) {
	if !g.haveMax || epoch > g.maxEpoch {
		g.maxEpoch, g.haveMax = epoch, true
	}
}

// minEpoch is the lower end of the epoch window (see check.json "rule").
func (g *genState) minEpoch() uint64 {
	if !g.haveMax || g.maxEpoch == 0 {
		return 0
	}
	return g.maxEpoch - 1
}

func (g *genState) genDuty(t *rapid.T, epoch uint64) Run {
	r := Run{Slot: epoch*g.spe + rapid.Uint64Range(0, g.spe-1).Draw(t, "slotInEpoch")}
	nC := rapid.IntRange(1, 3).Draw(t, "nCommittees")
	usedIdx := map[uint64]bool{}
	offsets := make([]uint64, nC)
	counts := make([]uint64, nC)
	for i := 0; i < nC; i++ {
		idx := rapid.Uint64Range(0, 63).Draw(t, "committeeIndex")
		for usedIdx[idx] {
			idx = (idx + 1) % 64
		}
		usedIdx[idx] = true
		size := rapid.Uint64Range(16, 128).Draw(t, "committeeSize")
		r.Committees = append(r.Committees, Committee{Index: idx, Size: size})
		offsets[i] = rapid.Uint64Range(0, size-13).Draw(t, "posOffset")
	}
	n := rapid.OneOf(rapid.IntRange(1, 3), rapid.IntRange(1, 12)).Draw(t, "nVals")
	allowDup := rapid.IntRange(0, 9).Draw(t, "allowDuplicate") == 0
	seen := map[uint64]bool{}
	for i := 0; i < n; i++ {
		v := uint64(rapid.IntRange(0, g.pool-1).Draw(t, "v"))
		if seen[v] && !allowDup {
			continue
		}
		seen[v] = true
		c := rapid.IntRange(0, nC-1).Draw(t, "c")
		r.Vals = append(r.Vals, DVal{V: v, C: c, Pos: offsets[c] + counts[c]})
		counts[c]++
	}
	return r
}

// genNodeData draws what a node answers for a duty at slot.
func (g *genState) genNodeData(t *rapid.T, slot uint64) NodeData {
	epoch := slot / g.spe
	nd := NodeData{Slot: slot, TargetEpoch: epoch, Seed: rapid.Uint64Range(0, 1<<16).Draw(t, "dataSeed")}
	back := rapid.Uint64Range(0, 2).Draw(t, "sourceBack")
	if back > epoch {
		back = epoch
	}
	nd.SourceEpoch = epoch - back
	kind := rapid.SampledFrom([]string{"ok", "ok", "ok", "ok", "ok", "ok", "err", "slot", "target-below", "target-below", "target-above", "source-above", "mixed"}).Draw(t, "dataKind")
	switch kind {
	case "err":
		nd.Err = true
	case "slot":
		d := rapid.SampledFrom([]int64{-1, 1, int64(g.spe), -int64(g.spe)}).Draw(t, "slotDelta")
		if d < 0 && uint64(-d) > slot {
			d = 1
		}
		nd.Slot = uint64(int64(slot) + d)
	case "target-below":
		if epoch > 0 {
			nd.TargetEpoch = epoch - rapid.Uint64Range(1, min64(epoch, 3)).Draw(t, "targetBelow")
			if nd.SourceEpoch > nd.TargetEpoch {
				nd.SourceEpoch = nd.TargetEpoch - min64(nd.TargetEpoch, rapid.Uint64Range(0, 1).Draw(t, "sourceBack2"))
			}
		}
	case "target-above":
		nd.TargetEpoch = epoch + rapid.SampledFrom([]uint64{1, 2, 1000}).Draw(t, "targetAbove")
		if rapid.IntRange(0, 3).Draw(t, "targetBoundary") == 0 {
			// values at the conversion boundaries of a 64-bit epoch (FAR_FUTURE_EPOCH is what nodes send for "not set")
			nd.TargetEpoch = rapid.SampledFrom([]uint64{1<<63 - 1, 1 << 63, 1<<63 + 1, 1<<64 - 2, 1<<64 - 1}).Draw(t, "targetHuge")
		}
	case "source-above":
		nd.SourceEpoch = nd.TargetEpoch + rapid.Uint64Range(1, 3).Draw(t, "sourceAbove")
		if rapid.IntRange(0, 2).Draw(t, "sourceBoundary") == 0 {
			nd.SourceEpoch = rapid.SampledFrom([]uint64{1<<32 + 1, 1<<63 - 1, 1 << 63, 1<<63 + nd.TargetEpoch, 1<<63 + nd.TargetEpoch + 1, 1<<64 - 2, 1<<64 - 1}).Draw(t, "sourceHuge")
		}
	case "mixed":
		nd.Slot = slot + 1
		if epoch > 0 {
			nd.TargetEpoch = epoch - 1
		}
		nd.SourceEpoch = nd.TargetEpoch + rapid.Uint64Range(0, 1).Draw(t, "sourceAbove")
	}
	return nd
}

func min64(a, b uint64) uint64 {
	if a < b {
		return a
	}
	return b
}

func (g *genState) script(t *rapid.T, r *Run) {
	r.Nodes = nil
	first := g.genNodeData(t, r.Slot)
	r.Nodes = append(r.Nodes, first)
	for i := 1; i < g.nodesN; i++ {
		if rapid.IntRange(0, 2).Draw(t, "nodeAgrees") != 0 {
			r.Nodes = append(r.Nodes, first)
		} else {
			r.Nodes = append(r.Nodes, g.genNodeData(t, r.Slot))
		}
	}
	if g.provider == "first" {
		// the "first" strategy sits out its whole (wall-clock) timeout when every node fails;
		// that outcome is an ordinary failed data fetch, generated for the other providers
		all := true
		for _, n := range r.Nodes {
			all = all && n.Err
		}
		if all {
			r.Nodes[len(r.Nodes)-1].Err = false
		}
	}
	r.Fault = rapid.SampledFrom([]string{"", "", "", "", "", "accounts-error", "accounts-error", "accounts-epoch-error", "accounts-error-both", "sign-error", "sign-batch-error", "zero-sigs", "no-account", "submit-error"}).Draw(t, "fault")
	r.Mask = nil
	if r.Fault == "zero-sigs" || r.Fault == "no-account" {
		for range r.Vals {
			r.Mask = append(r.Mask, rapid.Bool().Draw(t, "mask"))
		}
	}
}

func cloneDuty(r Run) Run {
	c := Run{Slot: r.Slot}
	c.Committees = append([]Committee(nil), r.Committees...)
	c.Vals = append([]DVal(nil), r.Vals...)
	return c
}

// genRun draws one run whose epoch is chosen from epochs (all inside the window).
func (g *genState) genRun(t *rapid.T, epochs []uint64) Run {
	kind := rapid.SampledFrom([]string{"new", "new", "redeliver", "redeliver", "reassign"}).Draw(t, "runKind")
	var cands []int
	for i := len(g.hist) - 1; i >= 0 && len(cands) < 6; i-- {
		e := g.hist[i].Slot / g.spe
		for _, ok := range epochs {
			if e == ok {
				cands = append(cands, i)
				break
			}
		}
	}
	var r Run
	switch {
	case kind == "redeliver" && len(cands) > 0:
		r = cloneDuty(g.hist[cands[rapid.IntRange(0, len(cands)-1).Draw(t, "redeliverOf")]])
		r.Origin = "redeliver"
	case kind == "reassign" && len(cands) > 0:
		prev := g.hist[cands[rapid.IntRange(0, len(cands)-1).Draw(t, "reassignOf")]]
		r = g.genDuty(t, prev.Slot/g.spe)
		// same validators, other slot/committees
		if len(r.Vals) > len(prev.Vals) {
			r.Vals = r.Vals[:len(prev.Vals)]
		}
		for i := range r.Vals {
			r.Vals[i].V = prev.Vals[i].V
		}
		r.Origin = "reassign"
	default:
		r = g.genDuty(t, epochs[rapid.IntRange(0, len(epochs)-1).Draw(t, "epochChoice")])
		r.Origin = "new"
	}
	g.script(t, &r)
	return r
}

func genCase(t *rapid.T, provider string) Case {
	g := &genState{
		spe:      rapid.SampledFrom([]uint64{2, 3, 8, 32}).Draw(t, "spe"),
		pool:     rapid.IntRange(2, 8).Draw(t, "pool"),
		nodesN:   1,
		provider: provider,
	}
	c := Case{SlotsPerEpoch: g.spe, Provider: provider, NodesN: 1, Pool: g.pool}
	if provider != "direct" {
		g.nodesN = rapid.IntRange(1, 4).Draw(t, "nodesN")
		if provider == "first" && g.nodesN > 2 {
			// with three or more answering nodes the "first" strategy parks a goroutine per extra
			// answer for ever (unbuffered hand-over); that is C20's subject and would only
			// exhaust the memory of a long search here
			g.nodesN = 2
		}
		c.NodesN = g.nodesN
	}
	start := rapid.SampledFrom([]uint64{0, 1, 2, 3, 7, 100}).Draw(t, "startEpoch")
	nOps := rapid.IntRange(1, 25).Draw(t, "nOps")
	for i := 0; i < nOps; i++ {
		// epochs this op may use: inside the window [max-1, ...], moving forward by at most 2
		var base uint64
		if !g.haveMax {
			base = start
		} else {
			base = g.maxEpoch + rapid.SampledFrom([]uint64{0, 0, 0, 1, 1, 2}).Draw(t, "epochStep")
		}
		overlap := rapid.IntRange(0, 4).Draw(t, "overlap") == 0
		var op Op
		if !overlap {
			epochs := []uint64{base}
			if base == g.maxEpoch && g.haveMax && g.minEpoch() < base && rapid.IntRange(0, 2).Draw(t, "previousEpoch") == 0 {
				epochs = []uint64{g.minEpoch()}
			}
			r := g.genRun(t, epochs)
			g.note(r.Slot / g.spe)
			g.hist = append(g.hist, r)
			op.Runs = []Run{r}
		} else {
			// all runs of the overlap lie in {base-1, base}; base >= max, so every
			// run is inside the window whatever the order in which they finish
			g.note(base)
			epochs := []uint64{base}
			if base > 0 {
				epochs = append(epochs, base, base-1)
			}
			k := rapid.IntRange(2, 4).Draw(t, "k")
			for j := 0; j < k; j++ {
				var r Run
				if j > 0 && rapid.IntRange(0, 1).Draw(t, "sameDuty") == 0 {
					r = cloneDuty(op.Runs[rapid.IntRange(0, j-1).Draw(t, "copyOf")])
					r.Origin = "copy"
					g.script(t, &r)
				} else {
					r = g.genRun(t, epochs)
				}
				op.Runs = append(op.Runs, r)
			}
			g.hist = append(g.hist, op.Runs...)
		}
		c.Ops = append(c.Ops, op)
	}
	c.LogLevel = genLogLevel(t)
	return c
}

// ---------------------------------------------------------------------------
// Run

type runResult struct {
	err      error
	returned int
	panicked string
}

type observation struct {
	w       *world
	results []runResult
}

func buildDuty(ctx context.Context, r *Run) (*attester.Duty, error) {
	var vs []phase0.ValidatorIndex
	var cis []phase0.CommitteeIndex
	var poss []uint64
	sizes := map[phase0.CommitteeIndex]uint64{}
	for _, c := range r.Committees {
		sizes[phase0.CommitteeIndex(c.Index)] = c.Size
	}
	for _, v := range r.Vals {
		if v.C < 0 || v.C >= len(r.Committees) {
			return nil, errors.New("malformed case: committee reference")
		}
		vs = append(vs, phase0.ValidatorIndex(v.V))
		cis = append(cis, phase0.CommitteeIndex(r.Committees[v.C].Index))
		poss = append(poss, v.Pos)
	}
	return attester.NewDuty(ctx, phase0.Slot(r.Slot), 64, vs, cis, poss, sizes)
}

func validCase(c *Case) error {
	if c.SlotsPerEpoch == 0 {
		return errors.New("slots_per_epoch is 0")
	}
	for _, op := range c.Ops {
		if len(op.Runs) == 0 {
			return errors.New("op without runs")
		}
		for _, r := range op.Runs {
			if len(r.Vals) == 0 || len(r.Committees) == 0 || len(r.Nodes) == 0 {
				return errors.New("run without validators, committees or node answers")
			}
		}
	}
	return nil
}

func runCase(c *Case) (*observation, error) {
	lvl, restoreLog := useLogLevel(c.LogLevel)
	defer restoreLog()
	if err := validCase(c); err != nil {
		return nil, err
	}
	ctx, cancel := context.WithCancel(context.Background())
	defer cancel()
	w := &world{dataOut: map[int][]*phase0.AttestationData{}, barriers: map[int]*barrier{}, pool: c.Pool}
	for i := range c.Ops {
		for j := range c.Ops[i].Runs {
			w.runs = append(w.runs, &c.Ops[i].Runs[j])
		}
	}
	clock := fakes.NewVClock(time.Unix(1600000000, 0), 12*time.Second, c.SlotsPerEpoch)
	provider, err := buildProvider(ctx, c, w, clock)
	if err != nil {
		return nil, err
	}
	svc, err := standardattester.New(ctx,
		standardattester.WithLogLevel(lvl),
		standardattester.WithProcessConcurrency(2),
		standardattester.WithMonitor(nullmetrics.New()),
		standardattester.WithChainTime(clock),
		standardattester.WithSpecProvider(specProvider{c.SlotsPerEpoch}),
		standardattester.WithAttestationDataProvider(provider),
		standardattester.WithAttestationsSubmitter(&submitterD{w}),
		standardattester.WithValidatingAccountsProvider(&accountsProvider{w}),
		standardattester.WithBeaconAttestationsSigner(&signerD{w}),
	)
	if err != nil {
		return nil, fmt.Errorf("cannot construct attester: %w", err)
	}
	obs := &observation{w: w, results: make([]runResult, len(w.runs))}
	id := 0
	for _, op := range c.Ops {
		ids := make([]int, len(op.Runs))
		for j := range op.Runs {
			ids[j] = id
			id++
		}
		duties := make([]*attester.Duty, len(op.Runs))
		var maxSlot uint64
		for j := range op.Runs {
			d, err := buildDuty(ctx, &op.Runs[j])
			if err != nil {
				return nil, err
			}
			duties[j] = d
			if op.Runs[j].Slot > maxSlot {
				maxSlot = op.Runs[j].Slot
			}
		}
		clock.SetSlot(maxSlot, 4*time.Second)
		call := func(j int) {
			defer func() {
				if p := recover(); p != nil {
					obs.results[ids[j]].panicked = fmt.Sprint(p)
				}
			}()
			atts, err := svc.Attest(context.WithValue(ctx, runKey{}, ids[j]), duties[j])
			obs.results[ids[j]].err = err
			obs.results[ids[j]].returned = len(atts)
		}
		if len(op.Runs) == 1 {
			call(0)
			w.waitNodes(c, ids)
			continue
		}
		b := newBarrier(len(op.Runs))
		w.mu.Lock()
		for _, rid := range ids {
			w.barriers[rid] = b
		}
		w.mu.Unlock()
		// The goroutines leave a spinning start line together, so that they enter Attest
		// within nanoseconds of each other on different CPUs (real parallelism for the
		// first steps of Attest; the rendezvous in the data double covers the rest).
		var wg sync.WaitGroup
		var ready atomic.Int32
		for j := range op.Runs {
			wg.Add(1)
			go func(j int) {
				defer wg.Done()
				ready.Add(1)
				for spins := 0; ready.Load() < int32(len(op.Runs)) && spins < 2000000; spins++ {
					if spins%1000 == 999 {
						runtime.Gosched()
					}
				}
				call(j)
			}(j)
		}
		wg.Wait()
		w.waitNodes(c, ids)
	}
	return obs, nil
}

// waitNodes waits until every node double has answered the runs of an op: a
// strategy may return (and Attest finish) while other nodes are still answering.
func (w *world) waitNodes(c *Case, ids []int) {
	if c.Provider == "" || c.Provider == "direct" {
		return
	}
	deadline := time.Now().Add(20 * time.Second)
	for {
		done := true
		w.mu.Lock()
		for _, id := range ids {
			if len(w.dataOut[id]) < c.NodesN {
				done = false
			}
		}
		w.mu.Unlock()
		if done {
			return
		}
		if time.Now().After(deadline) {
			w.mu.Lock()
			w.timeouts++
			w.mu.Unlock()
			return
		}
		time.Sleep(50 * time.Microsecond)
	}
}

// buildProvider returns the attester's attestation data provider.
func buildProvider(ctx context.Context, c *Case, w *world, clock *fakes.VClock) (eth2client.AttestationDataProvider, error) {
	switch c.Provider {
	case "", "direct":
		return &node{w: w, idx: 0}, nil
	default:
		return buildStrategy(ctx, c, w, clock)
	}
}

// ---------------------------------------------------------------------------
// Judge

type judgement struct{ sig, detail string }

// invalidity returns why attestation data is not acceptable for a duty at
// slot, "" if it is acceptable.  Straight from the statement: the duty's slot,
// target epoch = epoch of that slot, source epoch not above the target.
func invalidity(d *phase0.AttestationData, slot, spe uint64) string {
	switch {
	case uint64(d.Slot) != slot:
		return "slot"
	case d.Source.Epoch > d.Target.Epoch:
		return "source-above-target"
	case uint64(d.Target.Epoch) > slot/spe:
		return "target-above"
	case uint64(d.Target.Epoch) < slot/spe:
		return "target-below"
	}
	return ""
}

type stats struct {
	redeliveredAttested, overlap, overlapShared, retryAfterFault, refused, refusedTargetBelow bool
	signReqs, runs                                                                            int
	timeouts                                                                                  int
}

func sameData(q *signReq, d *phase0.AttestationData) bool {
	return q.root == d.BeaconBlockRoot && q.srcEpoch == uint64(d.Source.Epoch) && q.srcRoot == d.Source.Root &&
		q.tgtEpoch == uint64(d.Target.Epoch) && q.tgtRoot == d.Target.Root
}

func judge(c *Case, obs *observation) ([]judgement, stats) {
	var js []judgement
	var st stats
	w := obs.w
	spe := c.SlotsPerEpoch
	st.runs = len(w.runs)
	st.timeouts = w.timeouts

	reqsOf := map[int][]int{}
	for i, q := range w.signReqs {
		reqsOf[q.run] = append(reqsOf[q.run], i)
	}
	subsOf := map[int][]int{}
	for i, s := range w.submits {
		subsOf[s.run] = append(subsOf[s.run], i)
	}

	// (a) at most one signing request per validator and epoch, over the whole history
	type ve struct{ v, epoch uint64 }
	asked := map[ve][]int{}
	for i, q := range w.signReqs {
		if q.run < 0 || q.run >= len(w.runs) {
			js = append(js, judgement{"sign-request-outside-run", fmt.Sprintf("signing request %d cannot be attributed to an Attest call", i)})
			continue
		}
		epoch := w.runs[q.run].Slot / spe
		for _, v := range q.accounts {
			asked[ve{v, epoch}] = append(asked[ve{v, epoch}], i)
		}
	}
	var keys []ve
	for k, l := range asked {
		if len(l) > 1 {
			keys = append(keys, k)
		}
	}
	sort.Slice(keys, func(i, j int) bool {
		if keys[i].epoch != keys[j].epoch {
			return keys[i].epoch < keys[j].epoch
		}
		return keys[i].v < keys[j].v
	})
	for _, k := range keys {
		l := asked[k]
		var runs []string
		for _, qi := range l {
			runs = append(runs, fmt.Sprintf("run %d (slot %d)", w.signReqs[qi].run, w.signReqs[qi].slot))
		}
		js = append(js, judgement{"double-sign-request", fmt.Sprintf("validator %d was put before the signer %d times for epoch %d: %v", k.v, len(l), k.epoch, runs)})
	}

	// per run: (b) (c) (d)
	marked := map[ve]bool{}  // validator delivered before in this epoch (any earlier op)
	faulted := map[ve]bool{} // validator was part of a run that failed somewhere
	id := 0
	for _, op := range c.Ops {
		if len(op.Runs) > 1 {
			st.overlap = true
			seen := map[ve]int{}
			for j := range op.Runs {
				dedup := map[uint64]bool{}
				for _, v := range op.Runs[j].Vals {
					if !dedup[v.V] {
						dedup[v.V] = true
						seen[ve{v.V, op.Runs[j].Slot / spe}]++
					}
				}
			}
			for _, n := range seen {
				if n > 1 {
					st.overlapShared = true
				}
			}
		}
		for j := range op.Runs {
			r := &op.Runs[j]
			rid := id + j
			res := obs.results[rid]
			epoch := r.Slot / spe
			what := fmt.Sprintf("run %d (slot %d, epoch %d)", rid, r.Slot, epoch)
			for _, v := range r.Vals {
				if marked[ve{v.V, epoch}] {
					st.redeliveredAttested = true
				}
				if faulted[ve{v.V, epoch}] {
					st.retryAfterFault = true
				}
			}
			if res.panicked != "" {
				js = append(js, judgement{"attest-panicked", what + ": Attest panicked: " + res.panicked})
			}
			inDuty := map[uint64]bool{}
			for _, v := range r.Vals {
				inDuty[v.V] = true
			}
			nonEmpty := 0
			for _, qi := range reqsOf[rid] {
				if len(w.signReqs[qi].accounts) > 0 {
					nonEmpty++
				}
			}
			// The data this run's request was answered with.
			outs := w.dataOut[rid]
			var delivered []*phase0.AttestationData
			for _, d := range outs {
				if d != nil {
					delivered = append(delivered, d)
				}
			}
			// (c) data that is not acceptable for the duty is refused: error, nothing signed, nothing submitted.
			// With a strategy in front of several nodes this is demanded when no node delivered acceptable data.
			anyAcceptable := false
			var firstWhy string
			for _, d := range delivered {
				if why := invalidity(d, r.Slot, spe); why == "" {
					anyAcceptable = true
				} else if firstWhy == "" {
					firstWhy = why
				}
			}
			if len(delivered) > 0 && !anyAcceptable {
				st.refused = true
				for _, d := range delivered {
					if invalidity(d, r.Slot, spe) == "target-below" {
						st.refusedTargetBelow = true
					}
				}
				d := delivered[0]
				switch {
				case nonEmpty > 0:
					q := w.signReqs[reqsOf[rid][0]]
					js = append(js, judgement{"invalid-data-signed:" + firstWhy, fmt.Sprintf("%s: the beacon node returned data (slot %d, source %d, target %d) that is not acceptable for the duty (%s), yet the signer was asked to sign slot %d, source epoch %d, target epoch %d for validators %v",
						what, d.Slot, d.Source.Epoch, d.Target.Epoch, firstWhy, q.slot, q.srcEpoch, q.tgtEpoch, q.accounts)})
				case res.err == nil:
					js = append(js, judgement{"invalid-data-accepted:" + firstWhy, fmt.Sprintf("%s: the beacon node returned data (slot %d, source %d, target %d) not acceptable for the duty (%s) but Attest returned no error", what, d.Slot, d.Source.Epoch, d.Target.Epoch, firstWhy)})
				case len(subsOf[rid]) > 0:
					js = append(js, judgement{"invalid-data-submitted:" + firstWhy, fmt.Sprintf("%s: data not acceptable for the duty (%s) but attestations were submitted", what, firstWhy)})
				}
			}
			if len(delivered) == 0 && nonEmpty > 0 {
				js = append(js, judgement{"signed-without-data", what + ": no attestation data was delivered but the signer was asked to sign"})
			}
			// (b) every signing request: duty slot, target epoch = duty epoch, source <= target, data as delivered
			for _, qi := range reqsOf[rid] {
				q := &w.signReqs[qi]
				if len(q.accounts) == 0 {
					continue
				}
				for _, v := range q.accounts {
					if !inDuty[v] {
						js = append(js, judgement{"foreign-validator-signed", fmt.Sprintf("%s: the signer was asked to sign for validator %d which is not in the duty", what, v)})
					}
				}
				asSigned := &phase0.AttestationData{Slot: phase0.Slot(q.slot), Source: &phase0.Checkpoint{Epoch: phase0.Epoch(q.srcEpoch)}, Target: &phase0.Checkpoint{Epoch: phase0.Epoch(q.tgtEpoch)}}
				if why := invalidity(asSigned, r.Slot, spe); why != "" && (anyAcceptable || len(delivered) == 0) {
					js = append(js, judgement{"invalid-data-signed:" + why, fmt.Sprintf("%s: the signer was asked to sign slot %d, source epoch %d, target epoch %d for validators %v; the duty is for slot %d of epoch %d (%s)",
						what, q.slot, q.srcEpoch, q.tgtEpoch, q.accounts, r.Slot, epoch, why)})
				}
				match := false
				for _, d := range delivered {
					if sameData(q, d) {
						match = true
					}
				}
				if !match && len(delivered) > 0 {
					js = append(js, judgement{"signed-data-not-from-node", fmt.Sprintf("%s: the block root/source/target put before the signer equal none of the %d answers of the beacon node(s)", what, len(delivered))})
				}
			}
			// (d) every submitted attestation corresponds to a logged signature
			for _, si := range subsOf[rid] {
				seenV := map[uint64]bool{}
				for k, a := range w.submits[si].atts {
					where := fmt.Sprintf("%s: submitted attestation %d", what, k)
					if a == nil || a.Data == nil || a.Data.Source == nil || a.Data.Target == nil {
						js = append(js, judgement{"malformed-attestation", where + " is nil or lacks data"})
						continue
					}
					v, seq, dg, ok := decodeSig(a.Signature)
					if !ok || seq >= len(w.signReqs) {
						js = append(js, judgement{"submitted-without-signature", fmt.Sprintf("%s carries signature %#x… that the signer never produced", where, a.Signature[:13])})
						continue
					}
					q := &w.signReqs[seq]
					found := false
					for x, av := range q.accounts {
						if av == v && q.sigs[x] == a.Signature {
							found = true
						}
					}
					switch {
					case q.run != rid:
						js = append(js, judgement{"submitted-signature-of-other-run", fmt.Sprintf("%s carries a signature produced for run %d", where, q.run)})
					case !found || q.failed:
						js = append(js, judgement{"submitted-without-signature", where + ": no successful signing request produced this signature"})
					case seenV[v]:
						js = append(js, judgement{"duplicate-attestation", fmt.Sprintf("%s: second attestation of validator %d in one submission", where, v)})
					case uint64(a.Data.Slot) != q.slot || a.Data.BeaconBlockRoot != q.root || uint64(a.Data.Source.Epoch) != q.srcEpoch || a.Data.Source.Root != q.srcRoot ||
						uint64(a.Data.Target.Epoch) != q.tgtEpoch || a.Data.Target.Root != q.tgtRoot ||
						dg != digest(uint64(a.Data.Slot), uint64(a.Data.Index), a.Data.BeaconBlockRoot, uint64(a.Data.Source.Epoch), a.Data.Source.Root, uint64(a.Data.Target.Epoch), a.Data.Target.Root):
						js = append(js, judgement{"submitted-differs-from-signed", where + ": the attestation's slot/committee/root/source/target are not the values that were signed"})
					}
					seenV[v] = true
				}
			}
			st.signReqs += nonEmpty
		}
		// bookkeeping for the non-trivial rule (after the whole op: overlapping runs are not "earlier")
		for j := range op.Runs {
			r := &op.Runs[j]
			rid := id + j
			epoch := r.Slot / spe
			failed := obs.results[rid].err != nil
			for _, v := range r.Vals {
				marked[ve{v.V, epoch}] = true
				if failed {
					faulted[ve{v.V, epoch}] = true
				}
			}
		}
		id += len(op.Runs)
	}
	return js, st
}

// ---------------------------------------------------------------------------

func check(t ev.TB, c *Case) {
	obs, err := runCase(c)
	if err != nil {
		t.Fatalf("harness problem: %v", err)
	}
	js, st := judge(c, obs)
	nontrivial := st.redeliveredAttested || st.overlap || st.retryAfterFault || st.refused
	labels := []string{"provider-" + providerName(c), "log-level-" + levelOf(c.LogLevel).String()}
	if st.redeliveredAttested {
		labels = append(labels, "redelivery-of-attested-validator")
	}
	if st.overlap {
		labels = append(labels, "overlap")
	}
	if st.overlapShared {
		labels = append(labels, "overlap-sharing-a-validator")
	}
	if st.retryAfterFault {
		labels = append(labels, "retry-after-failed-run")
	}
	if st.refused {
		labels = append(labels, "unacceptable-data")
	}
	if st.refusedTargetBelow {
		labels = append(labels, "unacceptable-data-target-below")
	}
	if st.signReqs > 0 {
		labels = append(labels, "some-signing-request")
	}
	ev.Case(nontrivial, ev.Hash(c), labels...)
	ev.LabelN("attest-calls", int64(st.runs))
	ev.LabelN("signing-requests", int64(st.signReqs))
	if st.timeouts > 0 {
		ev.Inconclusive("rendezvous of overlapping Attest calls timed out (not every call reached the data provider)")
	}
	if nontrivial {
		ev.Sample(c)
	}
	for _, j := range js {
		ev.Violation(t, j.sig, c, "%s", j.detail)
	}
}

func providerName(c *Case) string {
	if c.Provider == "" {
		return "direct"
	}
	return c.Provider
}

// genBurstCase: the same duty delivered k times at once, as the first Attest calls of a
// fresh epoch, for many consecutive fresh epochs (a reorg or a head event arriving
// together with the timer can start the attestation round of a slot twice at once).
func genBurstCase(t *rapid.T) Case {
	g := &genState{
		spe:      rapid.SampledFrom([]uint64{2, 3, 8, 32}).Draw(t, "spe"),
		pool:     rapid.IntRange(8, 40).Draw(t, "pool"),
		nodesN:   1,
		provider: "direct",
	}
	c := Case{SlotsPerEpoch: g.spe, Provider: "direct", NodesN: 1, Pool: g.pool}
	epoch := rapid.SampledFrom([]uint64{0, 1, 2, 50}).Draw(t, "startEpoch")
	k := rapid.IntRange(2, 8).Draw(t, "k")
	n := rapid.IntRange(20, 60).Draw(t, "epochs")
	for i := 0; i < n; i++ {
		r := g.genDuty(t, epoch+uint64(i))
		// a long validator list keeps the first call busy marking while the others arrive
		for len(r.Vals) < 6 {
			v := uint64(rapid.IntRange(0, g.pool-1).Draw(t, "burstV"))
			dup := false
			for _, x := range r.Vals {
				dup = dup || x.V == v
			}
			if !dup {
				r.Vals = append(r.Vals, DVal{V: v, C: 0, Pos: uint64(len(r.Vals))})
			}
		}
		r.Origin = "new"
		r.Nodes = []NodeData{{Slot: r.Slot, SourceEpoch: (epoch + uint64(i)) - min64(epoch+uint64(i), 1), TargetEpoch: epoch + uint64(i), Seed: uint64(i)}}
		op := Op{Runs: []Run{r}}
		for j := 1; j < k; j++ {
			cp := cloneDuty(r)
			cp.Origin = "copy"
			cp.Nodes = r.Nodes
			op.Runs = append(op.Runs, cp)
		}
		c.Ops = append(c.Ops, op)
	}
	c.LogLevel = rapid.SampledFrom([]string{"", "", "", "trace"}).Draw(t, "logLevel")
	return c
}

// TestFreshEpochBurst: simultaneous first deliveries in fresh epochs.
func TestFreshEpochBurst(t *testing.T) {
	rapid.Check(t, func(t *rapid.T) {
		c := genBurstCase(t)
		check(t, &c)
	})
}

func TestHistoryDirect(t *testing.T) {
	rapid.Check(t, func(t *rapid.T) {
		c := genCase(t, "direct")
		check(t, &c)
	})
}

// TestReplay re-executes a saved case without the property library.
func TestReplay(t *testing.T) {
	f := ev.ReplayFile()
	if f == "" {
		t.Skip("no replay file")
	}
	var c Case
	if _, err := ev.LoadCase(f, &c); err != nil {
		t.Fatalf("cannot load %s: %v", f, err)
	}
	check(t, &c)
	ev.ReplayPassed()
}
