package c01

import (
	"context"
	"fmt"
	"testing"
	"time"

	eth2client "github.com/attestantio/go-eth2-client"
	"github.com/attestantio/go-eth2-client/spec/phase0"
	nullmetrics "github.com/attestantio/vouch/services/metrics/null"
	"github.com/attestantio/vouch/strategies/attestationdata/best"
	"github.com/attestantio/vouch/strategies/attestationdata/first"
	"github.com/attestantio/vouch/strategies/attestationdata/majority"
	"pgregory.net/rapid"

	"verifharness/internal/fakes"
)

// rootCache is the block-root-to-slot cache the best/majority strategies consult for scoring.
type rootCache struct{}

func (rootCache) BlockRootToSlot(context.Context, phase0.Root) (phase0.Slot, error) { return 0, nil }

// strategyTimeout is far above anything the node doubles need (they answer
// immediately); if it is ever hit on a stalled machine the strategy fails, the
// run signs nothing and the case is merely less interesting - never an alarm.
const strategyTimeout = 8 * time.Second

// buildStrategy puts a real attestation data strategy in front of NodesN node doubles.
func buildStrategy(ctx context.Context, c *Case, w *world, clock *fakes.VClock) (eth2client.AttestationDataProvider, error) {
	if c.NodesN < 1 {
		return nil, fmt.Errorf("nodes_n must be at least 1")
	}
	providers := map[string]eth2client.AttestationDataProvider{}
	for i := 0; i < c.NodesN; i++ {
		n := &node{w: w, idx: i}
		providers[n.Name()] = n
	}
	switch c.Provider {
	case "first":
		return first.New(ctx,
			first.WithLogLevel(levelOf(c.LogLevel)),
			first.WithClientMonitor(nullmetrics.New()),
			first.WithTimeout(strategyTimeout),
			first.WithAttestationDataProviders(providers),
		)
	case "best":
		return best.New(ctx,
			best.WithLogLevel(levelOf(c.LogLevel)),
			best.WithClientMonitor(nullmetrics.New()),
			best.WithProcessConcurrency(4),
			best.WithTimeout(strategyTimeout),
			best.WithChainTime(clock),
			best.WithBlockRootToSlotCache(rootCache{}),
			best.WithAttestationDataProviders(providers),
		)
	case "majority":
		return majority.New(ctx,
			majority.WithLogLevel(levelOf(c.LogLevel)),
			majority.WithClientMonitor(nullmetrics.New()),
			majority.WithProcessConcurrency(4),
			majority.WithTimeout(strategyTimeout),
			majority.WithChainTime(clock),
			majority.WithBlockRootToSlotCache(rootCache{}),
			majority.WithThreshold(c.NodesN/2+1),
			majority.WithAttestationDataProviders(providers),
		)
	}
	return nil, fmt.Errorf("unknown provider %q", c.Provider)
}

// TestHistoryStrategy is the second configuration: the same histories with a
// real attestationdata strategy (first / best / majority) in front of 1-4 node doubles.
func TestHistoryStrategy(t *testing.T) {
	rapid.Check(t, func(t *rapid.T) {
		provider := rapid.SampledFrom([]string{"first", "first", "best", "majority"}).Draw(t, "provider")
		c := genCase(t, provider)
		check(t, &c)
	})
}
