// Package c19 decides property C19: hierarchical settings (beacon-node-addresses,
// timeout, log-level, process-concurrency, hierarchical booleans) resolve to the
// value set at the longest prefix of the looked-up path that has a value, falling
// back level by level to the top-level setting.
//
// Subject: the real util.BeaconNodeAddresses, util.Timeout, util.LogLevel,
// util.ProcessConcurrency and util.HierarchicalBool on a freshly reset global
// viper that is filled the way main.go fills it (configuration file in YAML or
// JSON, VOUCH_* environment variables, defaults, bound command-line flags).
// Oracle: a longest-prefix lookup over the list of generated entries, written
// from docs/configuration.md "Hierarchical configuration".
package c19

import (
	"bytes"
	"encoding/json"
	"fmt"
	"os"
	"sort"
	"strconv"
	"strings"
	"testing"
	"time"

	"github.com/attestantio/vouch/util"
	"github.com/rs/zerolog"
	"github.com/spf13/pflag"
	"github.com/spf13/viper"
	"pgregory.net/rapid"

	"verifharness/internal/ev"
)

// Entry is one configured value.
type Entry struct {
	// Path is the dotted path of the level the value is set at ("" = top level).
	Path string `json:"path"`
	// Var is timeout | log-level | process-concurrency | beacon-node-addresses |
	// beacon-node-address | bool:<name>.
	Var string `json:"var"`
	// Source is config | default | env | flag.
	Source string `json:"source"`
	// Value is the textual value (addresses: space separated).
	Value string `json:"value"`
}

// Lookup is one call of a util lookup function.
type Lookup struct {
	Var  string `json:"var"`
	Path string `json:"path"`
}

// Case is a whole configuration plus the lookups made against it.
type Case struct {
	// Format of the configuration file: yaml | yaml-flow | json.
	Format string `json:"format"`
	// BindFlags binds the command-line flags of main.go (with their defaults).
	BindFlags bool     `json:"bind_flags"`
	Entries   []Entry  `json:"entries"`
	Lookups   []Lookup `json:"lookups"`
}

// Value tables: textual form -> meaning, written down here (not parsed with the
// libraries the implementation uses).
var durations = map[string]time.Duration{
	"500ms": 500 * time.Millisecond,
	"1s":    time.Second,
	"2s":    2 * time.Second,
	"5s":    5 * time.Second,
	"30s":   30 * time.Second,
	"1m30s": 90 * time.Second,
	"2m":    2 * time.Minute,
}

// Levels named by docs/configuration.md (Fatal, Error, Warning, Information,
// Debug, Trace, None) and the abbreviations used in its sample file.
var levels = map[string]zerolog.Level{
	"fatal":       zerolog.FatalLevel,
	"error":       zerolog.ErrorLevel,
	"warning":     zerolog.WarnLevel,
	"warn":        zerolog.WarnLevel,
	"information": zerolog.InfoLevel,
	"info":        zerolog.InfoLevel,
	"debug":       zerolog.DebugLevel,
	"trace":       zerolog.TraceLevel,
	"none":        zerolog.Disabled,
}

var (
	durationPool    = []string{"500ms", "1s", "2s", "5s", "30s", "1m30s", "2m"}
	levelPool       = []string{"fatal", "error", "warning", "warn", "information", "info", "debug", "trace", "none", "Debug", "Trace", "INFO", "None"}
	concurrencyPool = []string{"0", "1", "2", "4", "8", "16", "64"}
	addressPool     = []string{"localhost:4000", "localhost:5051", "localhost:5052", "localhost:9000", "http://node1:5052", "https://user:pw@node2.example.com:443/eth"}
	boolPool        = []string{"true", "false"}
	boolNames       = []string{"reduced-memory-usage", "allow-delayed-start", "enabled"}
	// Segments: module names of the real callers, the pieces an
	// "eth2client.<address>" path is made of (addresses contain dots, colons and
	// slashes), and short ones.
	segPool = []string{
		"strategies", "attestationdata", "beaconblockproposal", "best", "first", "majority",
		"submitter", "multinode", "eth2client", "accountmanager", "dirk", "wallet",
		"a", "b", "c", "ab",
		"localhost:5052", "http://node1:5052", "127", "0", "1:5052", "10",
	}
)

func envSafe(path string) bool {
	for _, r := range path {
		if !(r >= 'a' && r <= 'z' || r >= '0' && r <= '9' || r == '.') {
			return false
		}
	}
	return true
}

func joinPath(path, key string) string {
	if path == "" {
		return key
	}
	return path + "." + key
}

func envName(path, key string) string {
	k := strings.ToUpper(joinPath(path, key))
	k = strings.NewReplacer("-", "_", ".", "_").Replace(k)
	return "VOUCH_" + k
}

func varKey(v string) string { return strings.TrimPrefix(v, "bool:") }

func genValue(t *rapid.T, v string) string {
	switch {
	case v == "timeout":
		return rapid.SampledFrom(durationPool).Draw(t, "dur")
	case v == "log-level":
		return rapid.SampledFrom(levelPool).Draw(t, "level")
	case v == "process-concurrency":
		return rapid.SampledFrom(concurrencyPool).Draw(t, "conc")
	case v == "beacon-node-addresses":
		n := rapid.IntRange(1, 3).Draw(t, "nAddr")
		var l []string
		for i := 0; i < n; i++ {
			l = append(l, rapid.SampledFrom(addressPool).Draw(t, "addr"))
		}
		return strings.Join(l, " ")
	case v == "beacon-node-address":
		return rapid.SampledFrom(addressPool).Draw(t, "addr")
	default:
		return rapid.SampledFrom(boolPool).Draw(t, "bool")
	}
}

func genCase(t *rapid.T) Case {
	c := Case{
		Format:    rapid.SampledFrom([]string{"yaml", "yaml", "yaml-flow", "json"}).Draw(t, "format"),
		BindFlags: rapid.Bool().Draw(t, "bindFlags"),
	}
	// a small alphabet so that paths overlap
	nAlpha := rapid.IntRange(1, 4).Draw(t, "nAlpha")
	var alpha []string
	for i := 0; i < nAlpha; i++ {
		alpha = append(alpha, rapid.SampledFrom(segPool).Draw(t, "seg"))
	}
	seg := func() string { return rapid.SampledFrom(alpha).Draw(t, "useSeg") }

	// the tree
	nNodes := rapid.IntRange(1, 6).Draw(t, "nNodes")
	var nodes []string
	for i := 0; i < nNodes; i++ {
		var p string
		if len(nodes) > 0 && rapid.IntRange(0, 9).Draw(t, "extend") < 7 {
			p = nodes[rapid.IntRange(0, len(nodes)-1).Draw(t, "parent")]
			if strings.Count(p, ".") < 4 {
				p = joinPath(p, seg())
			}
		} else {
			d := rapid.IntRange(1, 5).Draw(t, "depth")
			for j := 0; j < d; j++ {
				p = joinPath(p, seg())
			}
		}
		nodes = append(nodes, p)
	}
	// every level of the tree (all prefixes of all nodes), in a fixed order
	levelSet := map[string]bool{}
	for _, n := range nodes {
		segs := strings.Split(n, ".")
		for i := 1; i <= len(segs); i++ {
			levelSet[strings.Join(segs[:i], ".")] = true
		}
	}
	var lvls []string
	for l := range levelSet {
		lvls = append(lvls, l)
	}
	sort.Strings(lvls)

	// the variables of this case
	all := []string{"timeout", "log-level", "process-concurrency", "beacon-node-addresses",
		"bool:" + rapid.SampledFrom(boolNames).Draw(t, "boolName")}
	nVars := rapid.IntRange(1, 3).Draw(t, "nVars")
	var vars []string
	for len(vars) < nVars {
		v := rapid.SampledFrom(all).Draw(t, "var")
		dup := false
		for _, w := range vars {
			dup = dup || w == v
		}
		if !dup {
			vars = append(vars, v)
		}
	}

	source := func(path, v string) string {
		k := rapid.IntRange(0, 9).Draw(t, "source")
		switch {
		case k < 6:
			return "config"
		case k < 8:
			return "default"
		default:
			if envSafe(path) {
				return "env"
			}
			return "config"
		}
	}
	for _, v := range vars {
		// top level
		if rapid.IntRange(0, 9).Draw(t, "top") < 6 {
			e := Entry{Path: "", Var: v, Value: genValue(t, v)}
			e.Source = source("", v)
			if c.BindFlags && v == "log-level" && rapid.IntRange(0, 3).Draw(t, "flag") == 0 {
				e.Source = "flag"
			}
			c.Entries = append(c.Entries, e)
		}
		if v == "beacon-node-addresses" && rapid.Bool().Draw(t, "singularTop") {
			e := Entry{Path: "", Var: "beacon-node-address", Value: genValue(t, "beacon-node-address")}
			e.Source = source("", e.Var)
			if c.BindFlags && rapid.IntRange(0, 3).Draw(t, "flag") == 0 {
				e.Source = "flag"
			}
			c.Entries = append(c.Entries, e)
		}
		for _, l := range lvls {
			if rapid.Bool().Draw(t, "set") {
				c.Entries = append(c.Entries, Entry{Path: l, Var: v, Source: source(l, v), Value: genValue(t, v)})
			}
			// distractor: the singular key is not hierarchical
			if v == "beacon-node-addresses" && rapid.IntRange(0, 7).Draw(t, "singularLow") == 0 {
				c.Entries = append(c.Entries, Entry{Path: l, Var: "beacon-node-address", Source: "config", Value: genValue(t, "beacon-node-address")})
			}
		}
	}

	nLookups := rapid.IntRange(1, 6).Draw(t, "nLookups")
	for i := 0; i < nLookups; i++ {
		lk := Lookup{Var: rapid.SampledFrom(vars).Draw(t, "lookupVar")}
		switch k := rapid.IntRange(0, 9).Draw(t, "lookupKind"); {
		case k < 4: // a node
			lk.Path = rapid.SampledFrom(nodes).Draw(t, "node")
		case k < 7: // a descendant of a node
			lk.Path = rapid.SampledFrom(nodes).Draw(t, "node")
			for j, n := 0, rapid.IntRange(1, 2).Draw(t, "extra"); j < n; j++ {
				if rapid.Bool().Draw(t, "fromPool") {
					lk.Path = joinPath(lk.Path, rapid.SampledFrom(segPool).Draw(t, "poolSeg"))
				} else {
					lk.Path = joinPath(lk.Path, seg())
				}
			}
		case k < 9: // some path over the alphabet (related or not)
			d := rapid.IntRange(1, 5).Draw(t, "depth")
			for j := 0; j < d; j++ {
				lk.Path = joinPath(lk.Path, seg())
			}
		default:
			lk.Path = ""
		}
		c.Lookups = append(c.Lookups, lk)
	}
	return c
}

// typed returns the value in the Go type that source delivers for that variable.
func typed(e *Entry, forFile bool) (any, error) {
	switch {
	case e.Var == "timeout":
		d, ok := durations[e.Value]
		if !ok {
			return nil, fmt.Errorf("unknown duration %q", e.Value)
		}
		if forFile {
			return e.Value, nil // timeout: '2s'
		}
		return d, nil // viper.SetDefault("timeout", 2*time.Second)
	case e.Var == "log-level", e.Var == "beacon-node-address", e.Var == "style":
		return e.Value, nil
	case e.Var == "process-concurrency":
		n, err := strconv.ParseInt(e.Value, 10, 64)
		if err != nil {
			return nil, err
		}
		if forFile {
			return int(n), nil
		}
		return n, nil // viper.SetDefault("process-concurrency", int64(...))
	case e.Var == "beacon-node-addresses":
		return strings.Fields(e.Value), nil
	case strings.HasPrefix(e.Var, "bool:"):
		switch e.Value {
		case "true":
			return true, nil
		case "false":
			return false, nil
		}
		return nil, fmt.Errorf("bad bool %q", e.Value)
	}
	return nil, fmt.Errorf("unknown variable %q", e.Var)
}

func setNested(m map[string]any, path, key string, val any) error {
	cur := m
	if path != "" {
		for _, s := range strings.Split(path, ".") {
			next, ok := cur[s]
			if !ok {
				n := map[string]any{}
				cur[s] = n
				cur = n
				continue
			}
			nm, ok := next.(map[string]any)
			if !ok {
				return fmt.Errorf("segment %q of %q collides with a value", s, path)
			}
			cur = nm
		}
	}
	if _, dup := cur[key]; dup {
		return fmt.Errorf("duplicate %q at %q", key, path)
	}
	cur[key] = val
	return nil
}

func renderYAML(b *bytes.Buffer, m map[string]any, indent int, flow bool) {
	keys := make([]string, 0, len(m))
	for k := range m {
		keys = append(keys, k)
	}
	sort.Strings(keys)
	pad := strings.Repeat("  ", indent)
	for _, k := range keys {
		fmt.Fprintf(b, "%s%s:", pad, strconv.Quote(k))
		switch v := m[k].(type) {
		case map[string]any:
			b.WriteString("\n")
			renderYAML(b, v, indent+1, flow)
		case []string:
			if flow {
				b.WriteString(" [")
				for i, s := range v {
					if i > 0 {
						b.WriteString(",")
					}
					fmt.Fprintf(b, " '%s'", s)
				}
				b.WriteString(" ]\n")
			} else {
				b.WriteString("\n")
				for _, s := range v {
					fmt.Fprintf(b, "%s  - '%s'\n", pad, s)
				}
			}
		case string:
			fmt.Fprintf(b, " '%s'\n", v)
		default:
			fmt.Fprintf(b, " %v\n", v)
		}
	}
}

// install fills the global viper the way main.go:fetchConfig does and returns a
// cleanup function.
func install(c *Case) (func(), error) {
	for _, kv := range os.Environ() {
		if strings.HasPrefix(kv, "VOUCH_") {
			os.Unsetenv(strings.SplitN(kv, "=", 2)[0])
		}
	}
	viper.Reset()
	var envs []string
	cleanup := func() {
		for _, e := range envs {
			os.Unsetenv(e)
		}
		viper.Reset()
	}

	seen := map[string]bool{}
	flagValues := map[string]string{}
	file := map[string]any{}
	for i := range c.Entries {
		e := &c.Entries[i]
		id := joinPath(e.Path, varKey(e.Var))
		if seen[id] {
			return cleanup, fmt.Errorf("entry %q twice", id)
		}
		seen[id] = true
		if e.Source == "flag" {
			if !c.BindFlags || e.Path != "" || (e.Var != "log-level" && e.Var != "beacon-node-address") {
				return cleanup, fmt.Errorf("no such flag: %q", id)
			}
			flagValues[e.Var] = e.Value
		}
	}

	if c.BindFlags {
		fs := pflag.NewFlagSet("vouch", pflag.ContinueOnError)
		fs.String("base-dir", "", "base directory for configuration files")
		fs.String("log-level", "info", "minimum level of messsages to log")
		fs.String("log-file", "", "redirect log output to a file")
		fs.String("profile-address", "", "Address on which to run Go profile server")
		fs.String("tracing-address", "", "Address to which to send tracing data")
		fs.String("beacon-node-address", "", "Address on which to contact the beacon node")
		fs.Bool("version", false, "show Vouch version and exit")
		fs.String("proposer-config-check", "", "show the proposer configuration for the given public key and exit")
		var args []string
		for _, k := range []string{"log-level", "beacon-node-address"} {
			if v, ok := flagValues[k]; ok {
				args = append(args, "--"+k+"="+v)
			}
		}
		if err := fs.Parse(args); err != nil {
			return cleanup, err
		}
		if err := viper.BindPFlags(fs); err != nil {
			return cleanup, err
		}
	}
	viper.SetEnvPrefix("VOUCH")
	viper.SetEnvKeyReplacer(strings.NewReplacer("-", "_", ".", "_"))
	viper.AutomaticEnv()

	for i := range c.Entries {
		e := &c.Entries[i]
		switch e.Source {
		case "flag":
		case "default":
			v, err := typed(e, false)
			if err != nil {
				return cleanup, err
			}
			viper.SetDefault(joinPath(e.Path, varKey(e.Var)), v)
		case "env":
			if !envSafe(e.Path) {
				return cleanup, fmt.Errorf("path %q cannot be an environment variable", e.Path)
			}
			if _, err := typed(e, false); err != nil {
				return cleanup, err
			}
			n := envName(e.Path, varKey(e.Var))
			envs = append(envs, n)
			os.Setenv(n, e.Value)
		case "config":
			v, err := typed(e, true)
			if err != nil {
				return cleanup, err
			}
			if err := setNested(file, e.Path, varKey(e.Var), v); err != nil {
				return cleanup, err
			}
		default:
			return cleanup, fmt.Errorf("unknown source %q", e.Source)
		}
	}
	if len(file) > 0 {
		var b bytes.Buffer
		switch c.Format {
		case "json":
			j, err := json.MarshalIndent(file, "", "  ")
			if err != nil {
				return cleanup, err
			}
			b.Write(j)
			viper.SetConfigType("json")
		case "yaml", "yaml-flow":
			renderYAML(&b, file, 0, c.Format == "yaml-flow")
			viper.SetConfigType("yaml")
		default:
			return cleanup, fmt.Errorf("unknown format %q", c.Format)
		}
		if err := viper.ReadConfig(&b); err != nil {
			return cleanup, fmt.Errorf("configuration file not accepted: %v\n%s", err, b.String())
		}
	}
	return cleanup, nil
}

// reference: the entry at the longest prefix of path that has a value for v;
// nil if there is none.  distinctValues counts the different values found on
// the way (the non-trivial rule).
func reference(c *Case, v, path string) (winner *Entry, depth int, distinctValues int) {
	at := func(p, key string) *Entry {
		for i := range c.Entries {
			if c.Entries[i].Path == p && c.Entries[i].Var == key {
				return &c.Entries[i]
			}
		}
		return nil
	}
	var segs []string
	if path != "" {
		segs = strings.Split(path, ".")
	}
	values := map[string]bool{}
	for i := len(segs); i >= 0; i-- {
		p := strings.Join(segs[:i], ".")
		e := at(p, v)
		if e == nil && i == 0 && v == "beacon-node-addresses" {
			// "beacon-node-address ... Overridden by beacon-node-addresses if present."
			e = at("", "beacon-node-address")
		}
		if e == nil {
			continue
		}
		values[e.Value] = true
		if winner == nil {
			winner, depth = e, i
		}
	}
	return winner, depth, len(values)
}

type bad struct{ sig, detail string }

// The wrappers main.go uses to collect the beacon nodes an attestation / a
// proposal needs ("takes into account the used styles in strategies, and
// removes duplicates"): for each strategy involved, the hierarchical
// beacon-node-addresses of strategies.<strategy>.<style> if the strategy has one
// of its documented styles, else the top-level addresses; the union as a set.
var wrapperStrategies = map[string][]string{
	"wrapper:attesting": {"attestationdata"},
	"wrapper:proposing": {"beaconblockproposal", "blindedbeaconblockproposal"},
}

var documentedStyles = map[string][]string{
	"attestationdata":            {"best", "first", "majority"},
	"beaconblockproposal":        {"best", "first"},
	"blindedbeaconblockproposal": {"best", "first"},
}

func checkWrapper(c *Case, i int, lk Lookup, labels map[string]bool, nontrivial *bool) *bad {
	labels["var:"+lk.Var] = true
	set := map[string]bool{}
	var consulted []string
	for _, strategy := range wrapperStrategies[lk.Var] {
		style := ""
		for k := range c.Entries {
			if c.Entries[k].Var == "style" && c.Entries[k].Path == "strategies."+strategy {
				style = c.Entries[k].Value
			}
		}
		path := ""
		for _, s := range documentedStyles[strategy] {
			if s == style {
				path = "strategies." + strategy + "." + style
			}
		}
		labels["wrapper-style:"+map[bool]string{true: "documented", false: "unset-or-other"}[path != ""]] = true
		if style == "majority" && path != "" {
			labels["wrapper-style:majority"] = true
		}
		consulted = append(consulted, fmt.Sprintf("%q", path))
		want, depth, distinct := reference(c, "beacon-node-addresses", path)
		if distinct >= 2 {
			*nontrivial = true
			labels["lookup-with>=2-different-values-on-path"] = true
		}
		if want != nil {
			for _, a := range strings.Fields(want.Value) {
				set[a] = true
			}
			if path != "" {
				switch depth {
				case 0:
					labels["wrapper-resolved:top"] = true
				case 1, 2:
					labels["wrapper-resolved:intermediate-level"] = true
				case 3:
					labels["wrapper-resolved:style-level"] = true
				}
			}
		}
	}
	var exp []string
	for a := range set {
		exp = append(exp, a)
	}
	sort.Strings(exp)
	var res []string
	if lk.Var == "wrapper:attesting" {
		res = util.BeaconNodeAddressesForAttesting()
	} else {
		res = util.BeaconNodeAddressesForProposing()
	}
	gotSet := map[string]bool{}
	for _, a := range res {
		gotSet[a] = true
	}
	var got []string
	for a := range gotSet {
		got = append(got, a)
	}
	sort.Strings(got)
	if len(got) != len(res) {
		return &bad{lk.Var + "-duplicates", fmt.Sprintf("lookup %d: %s returned duplicates: %q", i, lk.Var, res)}
	}
	if strings.Join(got, " ") != strings.Join(exp, " ") {
		return &bad{lk.Var + "-not-longest-prefix-values", fmt.Sprintf("lookup %d: %s returned %q, expected the set %q (union of the hierarchical addresses of the paths %s)",
			i, lk.Var, res, exp, strings.Join(consulted, ", "))}
	}
	return nil
}

// genWrapperCase: configurations over the paths the wrappers consult.
func genWrapperCase(t *rapid.T) Case {
	c := Case{
		Format:    rapid.SampledFrom([]string{"yaml", "yaml", "yaml-flow", "json"}).Draw(t, "format"),
		BindFlags: rapid.Bool().Draw(t, "bindFlags"),
	}
	source := func() string {
		return rapid.SampledFrom([]string{"config", "config", "config", "default", "env"}).Draw(t, "source")
	}
	addr := func() string {
		n := rapid.IntRange(1, 2).Draw(t, "nAddr")
		var l []string
		for i := 0; i < n; i++ {
			l = append(l, rapid.SampledFrom(addressPool[:4]).Draw(t, "addr"))
		}
		return strings.Join(l, " ")
	}
	if rapid.IntRange(0, 9).Draw(t, "top") < 7 {
		c.Entries = append(c.Entries, Entry{Path: "", Var: "beacon-node-addresses", Source: source(), Value: addr()})
	}
	if rapid.IntRange(0, 3).Draw(t, "singularTop") == 0 {
		c.Entries = append(c.Entries, Entry{Path: "", Var: "beacon-node-address", Source: source(), Value: rapid.SampledFrom(addressPool[:4]).Draw(t, "addr")})
	}
	levels := []string{"strategies"}
	for _, strategy := range []string{"attestationdata", "beaconblockproposal", "blindedbeaconblockproposal", "aggregateattestation"} {
		p := "strategies." + strategy
		levels = append(levels, p, p+".best", p+".first", p+".majority")
		if st := rapid.SampledFrom([]string{"", "best", "first", "majority", "majority", "latest"}).Draw(t, "style"); st != "" {
			c.Entries = append(c.Entries, Entry{Path: p, Var: "style", Source: source(), Value: st})
		}
	}
	density := rapid.IntRange(1, 5).Draw(t, "density")
	for _, l := range levels {
		if rapid.IntRange(0, 9).Draw(t, "set") < density {
			c.Entries = append(c.Entries, Entry{Path: l, Var: "beacon-node-addresses", Source: source(), Value: addr()})
		}
	}
	c.Lookups = []Lookup{{Var: "wrapper:attesting"}, {Var: "wrapper:proposing"}}
	if rapid.Bool().Draw(t, "direct") {
		c.Lookups = append(c.Lookups, Lookup{Var: "beacon-node-addresses", Path: rapid.SampledFrom(levels).Draw(t, "path")})
	}
	return c
}

func TestWrappers(t *testing.T) {
	rapid.Check(t, func(t *rapid.T) {
		c := genWrapperCase(t)
		check(t, &c)
	})
}

func kindOf(v string) string {
	if strings.HasPrefix(v, "bool:") {
		return "bool"
	}
	return v
}

func check(t ev.TB, c *Case) {
	zerolog.SetGlobalLevel(zerolog.Disabled)
	cleanup, err := install(c)
	defer cleanup()
	if err != nil {
		t.Fatalf("harness problem: %v", err)
	}

	var bads []bad
	nontrivial := false
	labels := map[string]bool{}
	for i, lk := range c.Lookups {
		if strings.HasPrefix(lk.Var, "wrapper:") {
			if b := checkWrapper(c, i, lk, labels, &nontrivial); b != nil {
				bads = append(bads, *b)
			}
			continue
		}
		want, depth, distinct := reference(c, lk.Var, lk.Path)
		nSegs := 0
		if lk.Path != "" {
			nSegs = strings.Count(lk.Path, ".") + 1
		}
		kind := kindOf(lk.Var)
		labels["var:"+kind] = true
		if distinct >= 2 {
			nontrivial = true
			labels["lookup-with>=2-different-values-on-path"] = true
		}
		switch {
		case want == nil:
			labels["resolved:nothing-set"] = true
		case nSegs == 0:
			labels["resolved:top-level-lookup"] = true
		case depth == nSegs:
			labels["resolved:exact-level"] = true
		case depth == 0:
			labels["resolved:fell-back-to-top"] = true
		default:
			labels["resolved:intermediate-level"] = true
			if nSegs-depth >= 2 {
				labels["resolved:intermediate-skipping>=2-levels"] = true
			}
		}
		if want != nil {
			labels["winner-source:"+want.Source] = true
			if want.Var == "beacon-node-address" {
				labels["resolved:singular-address-fallback"] = true
			}
		}

		var got, exp string
		switch kind {
		case "timeout":
			got = util.Timeout(lk.Path).String()
			var d time.Duration
			if want != nil {
				d = durations[want.Value]
			}
			exp = d.String()
		case "log-level":
			g := util.LogLevel(lk.Path)
			if want == nil {
				if !c.BindFlags {
					// no level anywhere: the statement does not say what is used
					labels["log-level-unset-not-judged"] = true
					continue
				}
				// the bound --log-level flag has the default "info"
				exp = zerolog.InfoLevel.String()
				labels["resolved:flag-default"] = true
			} else {
				l, ok := levels[strings.ToLower(want.Value)]
				if !ok {
					t.Fatalf("harness problem: unknown level %q", want.Value)
				}
				exp = l.String()
			}
			got = g.String()
		case "process-concurrency":
			got = strconv.FormatInt(util.ProcessConcurrency(lk.Path), 10)
			exp = "0"
			if want != nil {
				exp = want.Value
			}
		case "beacon-node-addresses":
			got = strings.Join(util.BeaconNodeAddresses(lk.Path), " ")
			if want != nil {
				exp = want.Value
			}
		case "wrapper:attesting", "wrapper:proposing":
			// handled below
		case "bool":
			got = strconv.FormatBool(util.HierarchicalBool(varKey(lk.Var), lk.Path))
			exp = "false"
			if want != nil {
				exp = want.Value
			}
		default:
			t.Fatalf("harness problem: unknown variable %q", lk.Var)
		}
		if got != exp {
			where := "nothing is set on the path"
			if want != nil {
				where = fmt.Sprintf("longest prefix with a value is %q (%s, from %s)", want.Path, want.Value, want.Source)
			}
			bads = append(bads, bad{kind + "-not-longest-prefix-value",
				fmt.Sprintf("lookup %d: %s(%q) returned %q, expected %q: %s", i, lk.Var, lk.Path, got, exp, where)})
		}
	}
	var ls []string
	for l := range labels {
		ls = append(ls, l)
	}
	sort.Strings(ls)
	ev.Case(nontrivial, ev.Hash(c), ls...)
	if nontrivial {
		ev.Sample(c)
	}
	for _, b := range bads {
		ev.Violation(t, b.sig, c, "%s", b.detail)
	}
}

func TestHierarchy(t *testing.T) {
	rapid.Check(t, func(t *rapid.T) {
		c := genCase(t)
		check(t, &c)
	})
}

// TestReplay re-executes a saved case without the property library.
func TestReplay(t *testing.T) {
	f := ev.ReplayFile()
	if f == "" {
		t.Skip("no replay file")
	}
	var c Case
	if _, err := ev.LoadCase(f, &c); err != nil {
		t.Fatalf("cannot load %s: %v", f, err)
	}
	check(t, &c)
	ev.ReplayPassed()
}
