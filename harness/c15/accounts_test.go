package c15

// Account doubles around real BLS keys.  Three kinds, modelled on what the two account managers of vouch
// deliver:
//
//   plain  wallet account manager: e2wtypes.AccountSigner (signs the 32-byte signing root it is given), like
//          the accounts of go-eth2-wallet-nd/hd.
//   multi  dirk account manager, single-key account: AccountProtectingSigner + AccountProtectingMultiSigner
//          (go-eth2-wallet-dirk account.go).  SignGenericMulti refuses a list holding anything that is not an
//          account of its own kind ("account not of required type"), as dirk does.
//   dist   dirk account manager, distributed account: DistributedAccount + the same signer interfaces
//          (go-eth2-wallet-dirk distributedaccount.go).  The signature is the one of the composite key;
//          where the signing threshold is not reached for one request the entry of that request in the result
//          is nil while the others are returned (dirk grpc.go thresholdMultiSign) - this is the scripted
//          "signature fails" of a member.

import (
	"context"
	"crypto/sha256"
	"errors"
	"fmt"
	"sync"

	"github.com/google/uuid"
	e2types "github.com/wealdtech/go-eth2-types/v2"
	e2wtypes "github.com/wealdtech/go-eth2-wallet-types/v2"
)

var blsOnce sync.Once

func initBLS() {
	blsOnce.Do(func() {
		if err := e2types.InitBLS(); err != nil {
			panic(err)
		}
	})
}

// keyFor derives a deterministic private key from a label.
func keyFor(label string) *e2types.BLSPrivateKey {
	initBLS()
	h := sha256.Sum256([]byte("c15-key-" + label))
	h[0] = 0 // below the group order
	if h[31] == 0 {
		h[31] = 1
	}
	k, err := e2types.BLSPrivateKeyFromBytes(h[:])
	if err != nil {
		panic(err)
	}
	return k
}

// signCall is one signature request seen by an account double.
type signCall struct {
	Validator  uint64
	DomainType [4]byte
	Failed     bool
}

// signLog is shared by the accounts of a world.
type signLog struct {
	mu    sync.Mutex
	calls []signCall
}

func (l *signLog) add(c signCall) {
	l.mu.Lock()
	l.calls = append(l.calls, c)
	l.mu.Unlock()
}

type baseAcct struct {
	validator uint64
	id        uuid.UUID
	name      string
	key       *e2types.BLSPrivateKey // the validator's key (composite key for dist)
	log       *signLog
	// failDomains: domain types (first 4 bytes of the domain) for which the signature of this account fails.
	failDomains map[[4]byte]bool
}

func (a *baseAcct) ID() uuid.UUID  { return a.id }
func (a *baseAcct) Name() string   { return a.name }
func (a *baseAcct) valKey() []byte { return a.key.PublicKey().Marshal() }

func newBase(validator uint64, log *signLog) baseAcct {
	var id uuid.UUID
	h := sha256.Sum256([]byte(fmt.Sprintf("c15-id-%d", validator)))
	copy(id[:], h[:16])
	return baseAcct{
		validator:   validator,
		id:          id,
		name:        fmt.Sprintf("validator-%d", validator),
		key:         keyFor(fmt.Sprintf("validator-%d", validator)),
		log:         log,
		failDomains: map[[4]byte]bool{},
	}
}

func (a *baseAcct) signGeneric(data []byte, domain []byte) (e2types.Signature, error) {
	if len(data) != 32 || len(domain) != 32 {
		return nil, errors.New("data and domain must be 32 bytes in length")
	}
	var dt [4]byte
	copy(dt[:], domain[:4])
	var buf [64]byte
	copy(buf[:32], data)
	copy(buf[32:], domain)
	sr := sha256.Sum256(buf[:])
	a.log.add(signCall{Validator: a.validator, DomainType: dt})
	return a.key.Sign(sr[:]), nil
}

// ---- plain ----

type plainAcct struct{ baseAcct }

func (a *plainAcct) PublicKey() e2types.PublicKey { return a.key.PublicKey() }
func (a *plainAcct) Sign(_ context.Context, data []byte) (e2types.Signature, error) {
	a.log.add(signCall{Validator: a.validator})
	return a.key.Sign(data), nil
}

// ---- multi (dirk single-key account) ----

type multiAcct struct{ baseAcct }

func (a *multiAcct) PublicKey() e2types.PublicKey { return a.key.PublicKey() }
func (a *multiAcct) SignGeneric(_ context.Context, data []byte, domain []byte) (e2types.Signature, error) {
	return a.signGeneric(data, domain)
}
func (*multiAcct) SignBeaconProposal(context.Context, uint64, uint64, []byte, []byte, []byte, []byte) (e2types.Signature, error) {
	return nil, errors.New("not used")
}
func (*multiAcct) SignBeaconAttestation(context.Context, uint64, uint64, []byte, uint64, []byte, uint64, []byte, []byte) (e2types.Signature, error) {
	return nil, errors.New("not used")
}
func (*multiAcct) SignBeaconAttestations(context.Context, uint64, []e2wtypes.Account, []uint64, []byte, uint64, []byte, uint64, []byte, []byte) ([]e2types.Signature, error) {
	return nil, errors.New("not used")
}
func (*multiAcct) SignGenericMulti(_ context.Context, accounts []e2wtypes.Account, data [][]byte, domain []byte) ([]e2types.Signature, error) {
	if len(accounts) != len(data) {
		return nil, errors.New("mismatched lengths")
	}
	sigs := make([]e2types.Signature, len(accounts))
	for i := range accounts {
		acc, ok := accounts[i].(*multiAcct)
		if !ok || acc == nil {
			return nil, errors.New("account not of required type")
		}
		sig, err := acc.signGeneric(data[i], domain)
		if err != nil {
			return nil, err
		}
		sigs[i] = sig
	}
	return sigs, nil
}

// ---- dist (dirk distributed account) ----

type distAcct struct {
	baseAcct
	share *e2types.BLSPrivateKey
}

func (a *distAcct) PublicKey() e2types.PublicKey          { return a.share.PublicKey() }
func (a *distAcct) CompositePublicKey() e2types.PublicKey { return a.key.PublicKey() }
func (*distAcct) SigningThreshold() uint32                { return 2 }
func (*distAcct) Participants() map[uint64]string {
	return map[uint64]string{1: "signer-1:1", 2: "signer-2:1", 3: "signer-3:1"}
}
func (a *distAcct) SignGeneric(_ context.Context, data []byte, domain []byte) (e2types.Signature, error) {
	var dt [4]byte
	copy(dt[:], domain[:4])
	if a.failDomains[dt] {
		a.log.add(signCall{Validator: a.validator, DomainType: dt, Failed: true})
		return nil, errors.New("not enough signatures: 1 signed, 0 denied, 2 failed, 0 errored")
	}
	return a.signGeneric(data, domain)
}
func (*distAcct) SignBeaconProposal(context.Context, uint64, uint64, []byte, []byte, []byte, []byte) (e2types.Signature, error) {
	return nil, errors.New("not used")
}
func (*distAcct) SignBeaconAttestation(context.Context, uint64, uint64, []byte, uint64, []byte, uint64, []byte, []byte) (e2types.Signature, error) {
	return nil, errors.New("not used")
}
func (*distAcct) SignBeaconAttestations(context.Context, uint64, []e2wtypes.Account, []uint64, []byte, uint64, []byte, uint64, []byte, []byte) ([]e2types.Signature, error) {
	return nil, errors.New("not used")
}
func (*distAcct) SignGenericMulti(_ context.Context, accounts []e2wtypes.Account, data [][]byte, domain []byte) ([]e2types.Signature, error) {
	if len(accounts) != len(data) {
		return nil, errors.New("mismatched lengths")
	}
	var dt [4]byte
	copy(dt[:], domain[:4])
	sigs := make([]e2types.Signature, len(accounts))
	for i := range accounts {
		acc, ok := accounts[i].(*distAcct)
		if !ok || acc == nil {
			return nil, errors.New("account not of required type")
		}
		if acc.failDomains[dt] {
			// threshold not reached for this request: its entry stays nil, the others are served
			acc.log.add(signCall{Validator: acc.validator, DomainType: dt, Failed: true})
			continue
		}
		sig, err := acc.signGeneric(data[i], domain)
		if err != nil {
			return nil, err
		}
		sigs[i] = sig
	}
	return sigs, nil
}

// compile-time interface checks: the kinds must look to vouch exactly like the real ones.
var (
	_ e2wtypes.Account                      = (*plainAcct)(nil)
	_ e2wtypes.AccountSigner                = (*plainAcct)(nil)
	_ e2wtypes.Account                      = (*multiAcct)(nil)
	_ e2wtypes.AccountProtectingSigner      = (*multiAcct)(nil)
	_ e2wtypes.AccountProtectingMultiSigner = (*multiAcct)(nil)
	_ e2wtypes.Account                      = (*distAcct)(nil)
	_ e2wtypes.DistributedAccount           = (*distAcct)(nil)
	_ e2wtypes.AccountProtectingSigner      = (*distAcct)(nil)
	_ e2wtypes.AccountProtectingMultiSigner = (*distAcct)(nil)
)

// newAccount builds the account double of a validator.
func newAccount(kind string, validator uint64, log *signLog) e2wtypes.Account {
	b := newBase(validator, log)
	switch kind {
	case "plain":
		return &plainAcct{b}
	case "multi":
		return &multiAcct{b}
	case "dist":
		return &distAcct{baseAcct: b, share: keyFor(fmt.Sprintf("share-%d", validator))}
	}
	panic("unknown account kind " + kind)
}

// validatorPubKey is the validator's public key on chain (the composite key for distributed accounts).
func validatorPubKey(validator uint64) e2types.PublicKey {
	return keyFor(fmt.Sprintf("validator-%d", validator)).PublicKey()
}

func setFail(a e2wtypes.Account, dt [4]byte) {
	if d, ok := a.(*distAcct); ok {
		d.failDomains[dt] = true
	}
}
