package c15

// Reference arithmetic written from the consensus specification (Altair validator guide and
// beacon chain spec) with crypto/sha256 only.  Nothing here calls vouch or the SSZ code it uses.

import (
	"crypto/sha256"
	"encoding/binary"
)

type root32 = [32]byte

func h2(a, b root32) root32 {
	var buf [64]byte
	copy(buf[:32], a[:])
	copy(buf[32:], b[:])
	return sha256.Sum256(buf[:])
}

func chunkU64(v uint64) root32 {
	var c root32
	binary.LittleEndian.PutUint64(c[:8], v)
	return c
}

// merkleize hashes a power-of-two padded list of chunks.
func merkleize(chunks []root32) root32 {
	n := 1
	for n < len(chunks) {
		n *= 2
	}
	layer := make([]root32, n)
	copy(layer, chunks)
	for len(layer) > 1 {
		next := make([]root32, len(layer)/2)
		for i := range next {
			next[i] = h2(layer[2*i], layer[2*i+1])
		}
		layer = next
	}
	return layer[0]
}

// htrBytes is hash_tree_root of a fixed-size byte vector (or a bitvector given as bytes).
func htrBytes(b []byte) root32 {
	var chunks []root32
	for i := 0; i < len(b); i += 32 {
		var c root32
		copy(c[:], b[i:])
		chunks = append(chunks, c)
	}
	if len(chunks) == 0 {
		chunks = []root32{{}}
	}
	return merkleize(chunks)
}

// refSigningRoot is compute_signing_root: hash_tree_root(SigningData{object_root, domain}).
func refSigningRoot(objectRoot root32, domain root32) root32 { return h2(objectRoot, domain) }

// refDomain is compute_domain(domain_type, fork_version, genesis_validators_root).
func refDomain(domainType [4]byte, forkVersion [4]byte, gvr root32) root32 {
	var v root32
	copy(v[:4], forkVersion[:])
	forkDataRoot := h2(v, gvr)
	var d root32
	copy(d[:4], domainType[:])
	copy(d[4:], forkDataRoot[:28])
	return d
}

// refSelectionDataRoot is hash_tree_root(SyncAggregatorSelectionData{slot, subcommittee_index}).
func refSelectionDataRoot(slot, subcommittee uint64) root32 {
	return h2(chunkU64(slot), chunkU64(subcommittee))
}

// refContributionRoot is hash_tree_root(SyncCommitteeContribution).
func refContributionRoot(slot uint64, blockRoot root32, subcommittee uint64, bits []byte, sig []byte) root32 {
	return merkleize([]root32{chunkU64(slot), blockRoot, chunkU64(subcommittee), htrBytes(bits), htrBytes(sig)})
}

// refContributionAndProofRoot is hash_tree_root(ContributionAndProof).
func refContributionAndProofRoot(aggregator uint64, contributionRoot root32, selectionProof []byte) root32 {
	return merkleize([]root32{chunkU64(aggregator), contributionRoot, htrBytes(selectionProof)})
}

// refIsSyncAggregator is is_sync_committee_aggregator(signature).
func refIsSyncAggregator(selectionProof []byte, committeeSize, subnetCount, targetAggregators uint64) bool {
	modulo := committeeSize / subnetCount / targetAggregators
	if modulo < 1 {
		modulo = 1
	}
	h := sha256.Sum256(selectionProof)
	return binary.LittleEndian.Uint64(h[:8])%modulo == 0
}

// refSubcommittee is the subnet of a position in the sync committee.
func refSubcommittee(position, committeeSize, subnetCount uint64) uint64 {
	return position / (committeeSize / subnetCount)
}
