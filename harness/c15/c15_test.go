// Package c15 decides property C15: sync committee members message every slot of their period,
// independently.  Subjects: the real controller (slot window of the prepare/message jobs), the real
// sync-committee messenger and aggregator with the real standard signer (messages, aggregator selection,
// contributions, independence of the members).
package c15

import (
	"bytes"
	"fmt"
	"sort"
	"testing"

	"github.com/attestantio/go-eth2-client/spec/altair"
	"github.com/attestantio/go-eth2-client/spec/phase0"
	e2types "github.com/wealdtech/go-eth2-types/v2"
	"pgregory.net/rapid"

	"verifharness/internal/ev"
)

type violation struct {
	sig    string
	detail string
}

type stats struct {
	labels map[string]bool
	// window
	startFirstEpochOfPeriod, startLastEpochOfPeriod, startEpoch0, crossesFork, crossesPeriod bool
	// messages
	faultyMembers, healthyMembers int
	judgedSlots                   int
	expectedContribs              int
}

func (s *stats) label(l string) {
	if s.labels == nil {
		s.labels = map[string]bool{}
	}
	s.labels[l] = true
}

// ---------------------------------------------------------------------------------------------------------
// Reference: which committee signs in slot N.

// committeeAt returns our seats in the committee that has to sign in slot n: the committee of the period
// that contains slot n+1 (a message made in slot n is included in the block of slot n+1), none before Altair.
func committeeAt(c *Case, n uint64) []Seat {
	ch := c.Chain
	e := (n + 1) / ch.SlotsPerEpoch
	if e < ch.AltairForkEpoch {
		return nil
	}
	var res []Seat
	for _, s := range c.committeeOfPeriod(e / ch.EpochsPerPeriod) {
		if len(s.Positions) > 0 {
			res = append(res, s)
		}
	}
	return res
}

// optionalSlot: slots in which a message may or may not be made.  The slot in which the controller was
// started ("from now"), and the slot before the Altair fork (there is no sync committee network before the
// fork; the controller learns about the fork at the fork epoch).
func optionalSlot(c *Case, n uint64) bool {
	ch := c.Chain
	if n == c.StartSlot {
		return true
	}
	return ch.AltairForkEpoch > 0 && n+1 == ch.AltairForkEpoch*ch.SlotsPerEpoch
}

// windowClass names where in the life of the chain the period of slot n lies.
func windowClass(c *Case, n uint64) string {
	ch := c.Chain
	p := (n + 1) / ch.SlotsPerEpoch / ch.EpochsPerPeriod
	switch {
	case ch.AltairForkEpoch > 0 && p == ch.AltairForkEpoch/ch.EpochsPerPeriod:
		return "altair-fork-period"
	case ch.AltairForkEpoch > 0 && p == ch.AltairForkEpoch/ch.EpochsPerPeriod+1:
		return "period-after-altair-fork-period"
	case p == 0:
		return "first-period-of-chain"
	}
	return "regular-period"
}

func seatsEqual(rec map[uint64][]uint64, want []Seat) bool {
	if len(rec) != len(want) {
		return false
	}
	for _, s := range want {
		got, ok := rec[s.Validator]
		if !ok || len(got) != len(s.Positions) {
			return false
		}
		for i := range got {
			if got[i] != s.Positions[i] {
				return false
			}
		}
	}
	return true
}

func (c *Case) member(v uint64) *Member {
	for i := range c.Members {
		if c.Members[i].Validator == v {
			return &c.Members[i]
		}
	}
	return nil
}

// ---------------------------------------------------------------------------------------------------------
// Oracle (a): the slot window.

func judgeWindow(c *Case, w *world, st *stats) []violation {
	var vs []violation
	add := func(sig, format string, args ...any) {
		vs = append(vs, violation{sig, fmt.Sprintf(format, args...)})
	}
	msgsBySlot := map[uint64][]dutyRec{}
	for _, r := range w.duties {
		if r.Panic != "" {
			add("panic-in-messenger", "%s of slot %d panicked: %s", r.Op, r.Slot, r.Panic)
		}
		want := committeeAt(c, r.Slot)
		switch {
		case len(want) == 0:
			add("job-outside-window", "%s job for slot %d carrying seats %v, but no committee with our validators signs in that slot",
				r.Op, r.Slot, r.Seats)
		case !seatsEqual(r.Seats, want):
			add("wrong-committee-for-slot", "%s job for slot %d carries seats %v; the committee of the period of slot %d has %v",
				r.Op, r.Slot, r.Seats, r.Slot+1, want)
		default:
			for _, s := range want {
				if m := c.member(s.Validator); m != nil && !m.Missing && !r.HasAcct[s.Validator] {
					add("account-not-attached", "%s job for slot %d: validator %d has an account but the duty does not carry it", r.Op, r.Slot, s.Validator)
				}
			}
		}
		if r.Op == "message" && !r.Drained {
			msgsBySlot[r.Slot] = append(msgsBySlot[r.Slot], r)
			if r.ClockSlot != r.Slot {
				add("message-outside-its-slot", "messages of slot %d were made in slot %d", r.Slot, r.ClockSlot)
			}
		}
	}
	for n := c.StartSlot; n <= c.EndSlot; n++ {
		want := committeeAt(c, n)
		got := msgsBySlot[n]
		if len(got) > 1 {
			add("slot-messaged-twice", "Message called %d times for slot %d", len(got), n)
		}
		if len(want) > 0 && len(got) == 0 && !optionalSlot(c, n) {
			add("slot-without-message:"+windowClass(c, n),
				"no sync committee message job ran in slot %d (controller started in slot %d of epoch %d, ran to slot %d; period of slot %d has seats %v; altair fork epoch %d)",
				n, c.StartSlot, c.StartSlot/c.Chain.SlotsPerEpoch, c.EndSlot, n+1, want, c.Chain.AltairForkEpoch)
		}
		if len(want) > 0 && !optionalSlot(c, n) {
			st.judgedSlots++
		}
	}
	return vs
}

// ---------------------------------------------------------------------------------------------------------
// Oracle (b): messages, aggregator selection, contributions.

func (w *world) domainAt(dt [4]byte, slot uint64) root32 {
	return refDomain(dt, w.forkVersionAt(slot/w.c.Chain.SlotsPerEpoch), genesisValidatorsRoot)
}

func verifySig(sig phase0.BLSSignature, signingRoot root32, validator uint64) bool {
	s, err := e2types.BLSSignatureFromBytes(sig[:])
	if err != nil {
		return false
	}
	return s.Verify(signingRoot[:], validatorPubKey(validator))
}

func judgeMessages(c *Case, w *world, st *stats) []violation {
	var vs []violation
	add := func(sig, format string, args ...any) {
		vs = append(vs, violation{sig, fmt.Sprintf(format, args...)})
	}
	ch := c.Chain
	messaged := map[uint64]bool{}
	messageErr := map[uint64]string{}
	for _, r := range w.duties {
		if r.Op == "message" && !r.Drained {
			messaged[r.Slot] = true
			if r.Err != "" {
				messageErr[r.Slot] = r.Err
			}
		}
	}
	for n := c.StartSlot; n <= c.EndSlot; n++ {
		seats := committeeAt(c, n)
		if len(seats) == 0 || !messaged[n] {
			continue // the window oracle decides about these slots
		}
		seatOf := map[uint64]Seat{}
		anyMissing, anyFailMsg, anyFailOther := false, false, false
		for _, s := range seats {
			seatOf[s.Validator] = s
			m := c.member(s.Validator)
			switch {
			case m.Missing:
				anyMissing = true
			case m.FailMsg:
				anyFailMsg = true
			case m.FailSel || m.FailCap:
				anyFailOther = true
			}
		}
		// which kind of faulty member shares the duty (for the signature of a suppression)
		msgSuppressedBy, capSuppressedBy := "", ""
		switch {
		case anyMissing && anyFailMsg:
			msgSuppressedBy, capSuppressedBy = "missing-account-and-failed-signature", "missing-account"
		case anyMissing:
			msgSuppressedBy, capSuppressedBy = "missing-account", "missing-account"
		case anyFailMsg:
			msgSuppressedBy, capSuppressedBy = "failed-signature", "failed-signature"
		case anyFailOther:
			capSuppressedBy = "failed-signature"
		}
		headsInSlot := map[phase0.Root]bool{}
		for _, h := range w.heads {
			if h.ClockSlot == n {
				headsInSlot[h.Root] = true
			}
		}

		// ---- messages ----
		seen := map[uint64]int{}
		var msgRoot *phase0.Root
		for _, sub := range w.msgSubmits {
			for _, m := range sub.Msgs {
				if m == nil || uint64(m.Slot) != n {
					continue
				}
				v := uint64(m.ValidatorIndex)
				if sub.ClockSlot != n {
					add("message-submitted-outside-its-slot", "message of validator %d for slot %d submitted in slot %d", v, n, sub.ClockSlot)
				}
				mem := c.member(v)
				_, seated := seatOf[v]
				switch {
				case mem == nil || !seated:
					add("message-from-non-member", "slot %d: message of validator %d which has no seat in the committee", n, v)
					continue
				case mem.Missing:
					add("message-from-missing-account", "slot %d: message of validator %d whose account is missing", n, v)
					continue
				case mem.FailMsg:
					add("unsigned-message-submitted", "slot %d: message of validator %d submitted although its signature failed (signature %#x…)", n, v, m.Signature[:8])
					continue
				}
				seen[v]++
				if !headsInSlot[m.BeaconBlockRoot] {
					add("message-root-not-obtained-in-slot", "slot %d validator %d: message over %#x which is none of the head roots obtained in that slot", n, v, m.BeaconBlockRoot[:6])
				}
				if msgRoot == nil {
					r := m.BeaconBlockRoot
					msgRoot = &r
				} else if *msgRoot != m.BeaconBlockRoot {
					add("members-sign-different-roots", "slot %d: messages over different roots in one slot", n)
				}
				if !verifySig(m.Signature, refSigningRoot(m.BeaconBlockRoot, w.domainAt(domSyncCommittee, n)), v) {
					add("message-signature-invalid", "slot %d validator %d: signature does not verify over the head root under the sync committee domain of epoch %d", n, v, n/ch.SlotsPerEpoch)
				}
			}
		}
		msgSuppressed := false
		for _, s := range seats {
			m := c.member(s.Validator)
			if m.Missing || m.FailMsg {
				st.faultyMembers++
				continue
			}
			st.healthyMembers++
			switch {
			case seen[s.Validator] > 1:
				add("duplicate-message", "slot %d: %d messages of validator %d", n, seen[s.Validator], s.Validator)
			case seen[s.Validator] == 0 && msgSuppressedBy != "" && !c.headFault(n):
				msgSuppressed = true
				add("healthy-messages-suppressed:"+msgSuppressedBy,
					"slot %d: no message of validator %d (account present, signature available); Message returned %q; members of the duty: %s", n, s.Validator, messageErr[n], describeFaulty(c, seats))
			case seen[s.Validator] == 0 && c.headFault(n):
				// the node gave no head root in this slot: only this slot may go without messages
				msgSuppressed = true
				st.label("slot-with-head-root-fault-not-judged")
			case seen[s.Validator] == 0:
				add("message-missing", "slot %d: no message of validator %d", n, s.Validator)
				msgSuppressed = true
			}
		}
		st.judgedSlots++
		if msgSuppressed || messageErr[n] != "" {
			// the controller does not aggregate after a failed Message: consequence of the above, not judged again
			st.label("contributions-not-judged-after-failed-message-call")
			continue
		}

		// ---- aggregator selection and contributions ----
		type key struct{ v, sub uint64 }
		expected := map[key][]byte{} // -> selection proof
		for _, s := range seats {
			m := c.member(s.Validator)
			if m.Missing || m.FailSel || m.FailCap {
				continue
			}
			for _, p := range s.Positions {
				k := key{s.Validator, refSubcommittee(p, ch.CommitteeSize, ch.SubnetCount)}
				if _, done := expected[k]; done {
					continue
				}
				sr := refSigningRoot(refSelectionDataRoot(n, k.sub), w.domainAt(domSyncSelectionProof, n))
				proof := keyFor(fmt.Sprintf("validator-%d", s.Validator)).Sign(sr[:]).Marshal()
				if refIsSyncAggregator(proof, ch.CommitteeSize, ch.SubnetCount, ch.TargetAggregators) {
					expected[k] = proof
					st.label("selected-aggregator")
				} else {
					expected[k] = nil
					st.label("non-aggregator")
				}
			}
		}
		got := map[key]int{}
		for _, sub := range w.capSubmits {
			for _, scp := range sub.Caps {
				if scp == nil || scp.Message == nil || scp.Message.Contribution == nil || uint64(scp.Message.Contribution.Slot) != n {
					continue
				}
				cp := scp.Message
				k := key{uint64(cp.AggregatorIndex), cp.Contribution.SubcommitteeIndex}
				mem := c.member(k.v)
				_, seated := seatOf[k.v]
				if sub.ClockSlot != n {
					add("contribution-submitted-outside-its-slot", "contribution of validator %d for slot %d submitted in slot %d", k.v, n, sub.ClockSlot)
				}
				proof, isExpected := expected[k]
				switch {
				case mem == nil || !seated:
					add("contribution-from-non-member", "slot %d: contribution of validator %d", n, k.v)
					continue
				case mem.Missing:
					add("contribution-from-missing-account", "slot %d: contribution of validator %d whose account is missing", n, k.v)
					continue
				case mem.FailSel:
					add("aggregator-without-selection-proof", "slot %d: validator %d contributed for subcommittee %d although it has no selection proof (proof %#x…)", n, k.v, k.sub, cp.SelectionProof[:8])
					continue
				case mem.FailCap:
					// Not judged: the statement only demands that the others are not suppressed; whether the
					// entry of a member whose signature was refused is in the batch or not is left open.
					st.label("unsigned-contribution-in-batch")
					continue
				case !isExpected:
					add("contribution-for-foreign-subcommittee", "slot %d: validator %d contributed for subcommittee %d in which it has no seat", n, k.v, k.sub)
					continue
				case proof == nil:
					add("non-aggregator-contributed", "slot %d: validator %d contributed for subcommittee %d but its selection proof does not select it (modulo rule)", n, k.v, k.sub)
					continue
				}
				got[k]++
				selRoot := refSigningRoot(refSelectionDataRoot(n, k.sub), w.domainAt(domSyncSelectionProof, n))
				if !verifySig(cp.SelectionProof, selRoot, k.v) {
					add("selection-proof-invalid", "slot %d validator %d subcommittee %d: selection proof does not verify", n, k.v, k.sub)
				}
				con := cp.Contribution
				if !headsInSlot[con.BeaconBlockRoot] {
					add("contribution-root-not-obtained-in-slot", "slot %d validator %d: contribution over %#x", n, k.v, con.BeaconBlockRoot[:6])
				} else if msgRoot != nil && con.BeaconBlockRoot != *msgRoot {
					add("contribution-root-differs-from-message-root", "slot %d validator %d: contribution over %#x, messages over %#x", n, k.v, con.BeaconBlockRoot[:6], (*msgRoot)[:6])
				}
				want := contributionFor(n, k.sub, con.BeaconBlockRoot)
				if !contributionEqual(con, want) {
					add("contribution-altered", "slot %d validator %d subcommittee %d: the submitted contribution is not the one the node provided for (slot, subcommittee, root)", n, k.v, k.sub)
				}
				cr := refContributionRoot(uint64(con.Slot), con.BeaconBlockRoot, con.SubcommitteeIndex, con.AggregationBits, con.Signature[:])
				capRoot := refContributionAndProofRoot(uint64(cp.AggregatorIndex), cr, cp.SelectionProof[:])
				if !verifySig(scp.Signature, refSigningRoot(capRoot, w.domainAt(domContributionAndProo, n)), k.v) {
					add("contribution-signature-invalid", "slot %d validator %d subcommittee %d: signature does not verify over the contribution and proof", n, k.v, k.sub)
				}
			}
		}
		keys := make([]key, 0, len(expected))
		for k := range expected {
			keys = append(keys, k)
		}
		sort.Slice(keys, func(i, j int) bool {
			if keys[i].v != keys[j].v {
				return keys[i].v < keys[j].v
			}
			return keys[i].sub < keys[j].sub
		})
		for _, k := range keys {
			if expected[k] == nil {
				continue
			}
			st.expectedContribs++
			switch {
			case got[k] > 1:
				add("duplicate-contribution", "slot %d: %d contributions of validator %d for subcommittee %d", n, got[k], k.v, k.sub)
			case got[k] == 0 && capSuppressedBy != "":
				add("healthy-contributions-suppressed:"+capSuppressedBy,
					"slot %d: validator %d is the selected aggregator of subcommittee %d but no contribution was submitted; other members of the duty: %s", n, k.v, k.sub, describeFaulty(c, seats))
			case got[k] == 0:
				add("contribution-missing", "slot %d: validator %d is the selected aggregator of subcommittee %d but no contribution was submitted", n, k.v, k.sub)
			}
		}
	}
	return vs
}

func describeFaulty(c *Case, seats []Seat) string {
	var b bytes.Buffer
	for _, s := range seats {
		m := c.member(s.Validator)
		switch {
		case m.Missing:
			fmt.Fprintf(&b, "%d(%s, account missing) ", m.Validator, m.Kind)
		case m.FailMsg || m.FailSel || m.FailCap:
			fmt.Fprintf(&b, "%d(%s, signature fails: sel=%v msg=%v cap=%v) ", m.Validator, m.Kind, m.FailSel, m.FailMsg, m.FailCap)
		default:
			fmt.Fprintf(&b, "%d(%s, healthy) ", m.Validator, m.Kind)
		}
	}
	return b.String()
}

func contributionEqual(a, b *altair.SyncCommitteeContribution) bool {
	return a.Slot == b.Slot && a.BeaconBlockRoot == b.BeaconBlockRoot && a.SubcommitteeIndex == b.SubcommitteeIndex &&
		bytes.Equal(a.AggregationBits, b.AggregationBits) && a.Signature == b.Signature
}

// ---------------------------------------------------------------------------------------------------------
// Generators.

func drawSeats(t *rapid.T, validators []uint64, size uint64, maxPos int, pIn int, used map[uint64]bool) []Seat {
	var seats []Seat
	for _, v := range validators {
		if rapid.IntRange(0, 99).Draw(t, "seated") >= pIn {
			continue
		}
		n := rapid.IntRange(1, maxPos).Draw(t, "nPositions")
		s := Seat{Validator: v}
		for i := 0; i < n; i++ {
			p := rapid.Uint64Range(0, size-1).Draw(t, "position")
			for used[p] {
				p = (p + 1) % size
			}
			used[p] = true
			s.Positions = append(s.Positions, p)
		}
		seats = append(seats, s)
	}
	return seats
}

// drawSubFault lets the subscription submission of a period fail (auxiliary call around the scheduling).
func drawSubFault(t *rapid.T, c *Case, period uint64) {
	k := rapid.SampledFrom([]string{"", "", "", "", "plain", "api-400", "api-503", "context"}).Draw(t, "subscriptionFault")
	if k != "" {
		c.SubFaults = append(c.SubFaults, SubFault{Period: period, Kind: k})
	}
}

func genWindowCase(t *rapid.T) Case {
	c := Case{Kind: "window"}
	ch := &c.Chain
	ch.CommitteeSize, ch.SubnetCount, ch.TargetAggregators = 512, 4, 16
	ch.EpochsPerPeriod = rapid.SampledFrom([]uint64{8, 8, 16, 64, 256}).Draw(t, "epochsPerPeriod")
	spes := []uint64{2, 4, 8, 32}
	if ch.EpochsPerPeriod >= 64 {
		spes = []uint64{2, 4, 8}
	}
	ch.SlotsPerEpoch = rapid.SampledFrom(spes).Draw(t, "slotsPerEpoch")
	epp, spe := ch.EpochsPerPeriod, ch.SlotsPerEpoch
	pb := rapid.Uint64Range(0, 3).Draw(t, "basePeriod")
	switch rapid.SampledFrom([]string{"zero", "zero", "aligned", "unaligned", "unaligned"}).Draw(t, "forkClass") {
	case "aligned":
		ch.AltairForkEpoch = (pb + rapid.Uint64Range(0, 1).Draw(t, "forkPeriodDelta")) * epp
	case "unaligned":
		ch.AltairForkEpoch = pb*epp + rapid.Uint64Range(1, epp-1).Draw(t, "forkOffset")
	}
	classes := []string{"epoch0", "period-first", "period-last5", "period-last5", "before-prep", "mid", "mid", "prep-run"}
	if ch.AltairForkEpoch > 0 {
		classes = append(classes, "fork", "fork", "fork")
	}
	var startEpoch uint64
	startClass := rapid.SampledFrom(classes).Draw(t, "startClass")
	switch startClass {
	case "prep-run":
		// from just before the epoch in which the next period is prepared into the next period
		startEpoch = pb*epp + epp - 6 + rapid.Uint64Range(0, 1).Draw(t, "prepDelta")
	case "epoch0":
		startEpoch = 0
	case "period-first":
		startEpoch = pb * epp
	case "period-last5":
		startEpoch = pb*epp + epp - rapid.Uint64Range(1, 5).Draw(t, "fromEnd")
	case "before-prep":
		startEpoch = pb*epp + epp - 6
	case "mid":
		startEpoch = pb*epp + rapid.Uint64Range(0, epp-1).Draw(t, "epochInPeriod")
	case "fork":
		d := rapid.Uint64Range(0, 3).Draw(t, "forkDelta") // fork-2 .. fork+1
		startEpoch = ch.AltairForkEpoch + d
		if startEpoch >= 2 {
			startEpoch -= 2
		} else {
			startEpoch = 0
		}
	}
	var inEpoch uint64
	switch rapid.SampledFrom([]string{"first", "last", "any"}).Draw(t, "slotClass") {
	case "last":
		inEpoch = spe - 1
	case "any":
		inEpoch = rapid.Uint64Range(0, spe-1).Draw(t, "slotInEpoch")
	}
	c.StartSlot = startEpoch*spe + inEpoch
	c.StartOffsetS = rapid.SampledFrom([]int{0, 2, 5, 7, 10}).Draw(t, "startOffset")
	ticks := rapid.SampledFrom([]uint64{0, 1, 1, 2, 3}).Draw(t, "epochBoundaries")
	if startClass == "prep-run" {
		ticks = rapid.Uint64Range(5, 7).Draw(t, "prepRunEpochs")
	}
	if ticks == 0 {
		c.EndSlot = rapid.Uint64Range(c.StartSlot, startEpoch*spe+spe-1).Draw(t, "endSlot")
	} else {
		c.EndSlot = (startEpoch+ticks)*spe + rapid.Uint64Range(0, spe-1).Draw(t, "endSlotInEpoch")
	}
	nVal := rapid.IntRange(1, 3).Draw(t, "validators")
	var validators []uint64
	for i := 0; i < nVal; i++ {
		v := uint64(100 + 7*i)
		validators = append(validators, v)
		c.Members = append(c.Members, Member{Validator: v, Kind: "plain", Missing: rapid.IntRange(0, 9).Draw(t, "missing") == 9})
	}
	firstPeriod := startEpoch / epp
	lastPeriod := c.EndSlot/spe/epp + 1
	for p := firstPeriod; p <= lastPeriod; p++ {
		c.Committees = append(c.Committees, Committee{Period: p, Seats: drawSeats(t, validators, ch.CommitteeSize, 2, 85, map[uint64]bool{})})
		drawSubFault(t, &c, p)
	}
	return c
}

func genMessagesCase(t *rapid.T) Case {
	c := Case{Kind: "messages"}
	ch := &c.Chain
	sz := rapid.SampledFrom([][2]uint64{{32, 4}, {512, 4}, {512, 4}}).Draw(t, "committeeSize")
	ch.CommitteeSize, ch.SubnetCount = sz[0], sz[1]
	// modulo = size/subnets/target: powers of two (mainnet 8, minimal 1) and others (3, 5, 7, 12, 18, 21, 25, 42)
	ch.TargetAggregators = rapid.SampledFrom([]uint64{1, 2, 4, 16, 3, 5, 6, 7, 10, 18, 25, 42}).Draw(t, "targetAggregators")
	ch.SlotsPerEpoch = rapid.SampledFrom([]uint64{4, 8}).Draw(t, "slotsPerEpoch")
	ch.EpochsPerPeriod = 8
	epp, spe := ch.EpochsPerPeriod, ch.SlotsPerEpoch
	mode := rapid.SampledFrom([]string{"wallet", "dirk", "dirk"}).Draw(t, "accountManager")
	n := rapid.IntRange(1, 6).Draw(t, "members")
	var validators []uint64
	for i := 0; i < n; i++ {
		m := Member{Validator: uint64(20 + 3*i), Kind: "plain"}
		if mode == "dirk" {
			m.Kind = rapid.SampledFrom([]string{"multi", "dist", "dist"}).Draw(t, "kind")
		}
		m.Missing = rapid.IntRange(0, 99).Draw(t, "missing") >= 82
		if m.Kind == "dist" && !m.Missing {
			m.FailSel = rapid.IntRange(0, 99).Draw(t, "failSel") >= 85
			m.FailMsg = rapid.IntRange(0, 99).Draw(t, "failMsg") >= 80
			m.FailCap = rapid.IntRange(0, 99).Draw(t, "failCap") >= 85
		}
		c.Members = append(c.Members, m)
		validators = append(validators, m.Validator)
	}
	pb := rapid.Uint64Range(0, 2).Draw(t, "period")
	span := rapid.Uint64Range(1, 3).Draw(t, "slots")
	periodFirst := pb * epp * spe
	periodLast := (pb+1)*epp*spe - 1
	switch rapid.SampledFrom([]string{"period-start", "period-end", "mid", "mid", "later-fork"}).Draw(t, "startClass") {
	case "later-fork":
		// a later hard fork (new fork version) right after one of the executed slots
		e := pb*epp + rapid.Uint64Range(0, epp-2).Draw(t, "epochBeforeFork")
		c.StartSlot = e*spe + spe - 1 - rapid.Uint64Range(1, min(span, spe-1)).Draw(t, "beforeBoundary")
		ch.LaterForkEpoch = e + 1
	case "period-start":
		c.StartSlot = periodFirst + rapid.Uint64Range(0, 1).Draw(t, "afterFirst")
	case "period-end":
		c.StartSlot = periodLast - rapid.Uint64Range(1, 3).Draw(t, "beforeLast")
	default:
		// inside an epoch so that no epoch boundary is crossed
		e := pb*epp + rapid.Uint64Range(0, epp-1).Draw(t, "epochInPeriod")
		c.StartSlot = e*spe + rapid.Uint64Range(0, spe-1-min(span, spe-1)).Draw(t, "slotInEpoch")
	}
	c.StartOffsetS = rapid.SampledFrom([]int{0, 2, 5, 7, 10}).Draw(t, "startOffset")
	c.EndSlot = c.StartSlot + span
	c.Committees = append(c.Committees, Committee{Period: pb, Seats: drawSeats(t, validators, ch.CommitteeSize, 3, 100, map[uint64]bool{})})
	c.Committees = append(c.Committees, Committee{Period: pb + 1, Seats: drawSeats(t, validators, ch.CommitteeSize, 3, 50, map[uint64]bool{})})
	drawSubFault(t, &c, pb)
	drawSubFault(t, &c, pb+1)
	if rapid.IntRange(0, 4).Draw(t, "headFault") == 4 {
		c.HeadFaultSlots = []uint64{rapid.Uint64Range(c.StartSlot+1, c.EndSlot).Draw(t, "headFaultSlot")}
	}
	return c
}

// ---------------------------------------------------------------------------------------------------------

func check(t ev.TB, c *Case) {
	w, err := runWorld(c)
	if err != nil {
		t.Fatalf("harness problem: %v", err)
	}
	var st stats
	ch := c.Chain
	spe, epp := ch.SlotsPerEpoch, ch.EpochsPerPeriod
	startEpoch, endEpoch := c.StartSlot/spe, c.EndSlot/spe
	st.startEpoch0 = startEpoch == 0
	st.startFirstEpochOfPeriod = startEpoch%epp == 0
	st.startLastEpochOfPeriod = startEpoch%epp == epp-1
	st.crossesPeriod = startEpoch/epp != (c.EndSlot+1)/spe/epp
	st.crossesFork = ch.AltairForkEpoch > 0 && startEpoch <= ch.AltairForkEpoch && endEpoch >= ch.AltairForkEpoch

	vs := judgeWindow(c, w, &st)
	if c.Kind == "messages" {
		vs = append(vs, judgeMessages(c, w, &st)...)
	}

	var nontrivial bool
	labels := []string{"kind:" + c.Kind}
	if c.Kind == "window" {
		nontrivial = (st.startFirstEpochOfPeriod || st.startLastEpochOfPeriod || st.crossesFork) && st.judgedSlots > 0
		for name, on := range map[string]bool{
			"w:start-in-epoch-0": st.startEpoch0, "w:start-in-first-epoch-of-period": st.startFirstEpochOfPeriod,
			"w:start-in-last-epoch-of-period": st.startLastEpochOfPeriod, "w:runs-across-altair-fork-epoch": st.crossesFork,
			"w:runs-across-period-boundary": st.crossesPeriod, "w:fork-epoch-nonzero": ch.AltairForkEpoch > 0,
			"w:some-slot-judged": st.judgedSlots > 0,
		} {
			if on {
				labels = append(labels, name)
			}
		}
	} else {
		nontrivial = st.faultyMembers > 0 && st.healthyMembers > 0
		for name, on := range map[string]bool{
			"m:faulty-and-healthy-members": nontrivial, "m:all-healthy": st.faultyMembers == 0 && st.healthyMembers > 0,
			"m:expected-contributions": st.expectedContribs > 0, "m:committee-32": ch.CommitteeSize == 32,
			"m:committee-512": ch.CommitteeSize == 512, "m:runs-across-period-boundary": st.crossesPeriod,
			"m:start-in-epoch-0": st.startEpoch0, "m:later-fork-after-an-executed-slot": ch.LaterForkEpoch > 0,
			"m:modulo-not-power-of-two": refModulo(ch)&(refModulo(ch)-1) != 0,
		} {
			if on {
				labels = append(labels, name)
			}
		}
		kinds := map[string]bool{}
		for _, m := range c.Members {
			kinds[m.Kind] = true
			if m.Missing {
				labels = appendOnce(labels, "m:missing-account")
			}
			if m.FailSel {
				labels = appendOnce(labels, "m:selection-signature-fails")
			}
			if m.FailMsg {
				labels = appendOnce(labels, "m:message-signature-fails")
			}
			if m.FailCap {
				labels = appendOnce(labels, "m:contribution-signature-fails")
			}
		}
		for k := range kinds {
			labels = append(labels, "m:account-kind-"+k)
		}
	}
	for l := range st.labels {
		labels = append(labels, "m:"+l)
	}
	if w.subFailures > 0 {
		labels = append(labels, "fault:subscription-submission-failed")
		for _, f := range c.SubFaults {
			labels = appendOnce(labels, "fault:subscription-"+f.Kind)
		}
	}
	if w.headFails > 0 {
		labels = append(labels, "fault:head-root-failed-in-one-slot")
	}
	sort.Strings(labels)
	ev.Case(nontrivial, ev.Hash(c), labels...)
	if nontrivial {
		ev.Sample(c)
	}
	for _, v := range vs {
		ev.Violation(t, v.sig, c, "%s", v.detail)
	}
}

func refModulo(ch Chain) uint64 {
	m := ch.CommitteeSize / ch.SubnetCount / ch.TargetAggregators
	if m < 1 {
		m = 1
	}
	return m
}

func appendOnce(l []string, s string) []string {
	for _, x := range l {
		if x == s {
			return l
		}
	}
	return append(l, s)
}

// TestWindow: part (a), the slot window in which the controller runs prepare/message jobs.
func TestWindow(t *testing.T) {
	rapid.Check(t, func(t *rapid.T) {
		c := genWindowCase(t)
		check(t, &c)
	})
}

// TestMessages: part (b), the messages and contributions made by the real messenger, aggregator and signer.
func TestMessages(t *testing.T) {
	rapid.Check(t, func(t *rapid.T) {
		c := genMessagesCase(t)
		check(t, &c)
	})
}

// TestReplay re-executes a saved case without the property library.
func TestReplay(t *testing.T) {
	f := ev.ReplayFile()
	if f == "" {
		t.Skip("no replay file")
	}
	var c Case
	if _, err := ev.LoadCase(f, &c); err != nil {
		t.Fatalf("cannot load %s: %v", f, err)
	}
	check(t, &c)
	ev.ReplayPassed()
}
