package c15

// The virtual world of a case: the real controller (services/controller/standard) on a virtual clock and the
// reference scheduler double, scripted beacon-node doubles, and either recording stubs or the real
// sync-committee messenger + aggregator + standard signer behind a recording wrapper.

import (
	"context"
	"crypto/sha256"
	"encoding/binary"
	"errors"
	"fmt"
	"runtime"
	"sort"
	"strings"
	"sync"
	"time"

	consensusclient "github.com/attestantio/go-eth2-client"
	"github.com/attestantio/go-eth2-client/api"
	apiv1 "github.com/attestantio/go-eth2-client/api/v1"
	"github.com/attestantio/go-eth2-client/spec"
	"github.com/attestantio/go-eth2-client/spec/altair"
	"github.com/attestantio/go-eth2-client/spec/phase0"
	mockattestationaggregator "github.com/attestantio/vouch/services/attestationaggregator/mock"
	mockattester "github.com/attestantio/vouch/services/attester/mock"
	mockbeaconblockproposer "github.com/attestantio/vouch/services/beaconblockproposer/mock"
	mockbeaconcommitteesubscriber "github.com/attestantio/vouch/services/beaconcommitteesubscriber/mock"
	"github.com/attestantio/vouch/services/cache"
	mockcache "github.com/attestantio/vouch/services/cache/mock"
	controller "github.com/attestantio/vouch/services/controller/standard"
	nullmetrics "github.com/attestantio/vouch/services/metrics/null"
	mockproposalpreparer "github.com/attestantio/vouch/services/proposalpreparer/mock"
	standardsigner "github.com/attestantio/vouch/services/signer/standard"
	"github.com/attestantio/vouch/services/synccommitteeaggregator"
	standardaggregator "github.com/attestantio/vouch/services/synccommitteeaggregator/standard"
	"github.com/attestantio/vouch/services/synccommitteemessenger"
	standardmessenger "github.com/attestantio/vouch/services/synccommitteemessenger/standard"
	standardsubscriber "github.com/attestantio/vouch/services/synccommitteesubscriber/standard"
	"github.com/rs/zerolog"
	e2wtypes "github.com/wealdtech/go-eth2-wallet-types/v2"

	"verifharness/internal/fakes"
)

const slotDuration = 12 * time.Second

var (
	domSyncCommittee       = [4]byte{0x07, 0, 0, 0}
	domSyncSelectionProof  = [4]byte{0x08, 0, 0, 0}
	domContributionAndProo = [4]byte{0x09, 0, 0, 0}
	genesisForkVersion     = [4]byte{0x00, 0x00, 0x10, 0x20}
	altairForkVersion      = [4]byte{0x01, 0x00, 0x10, 0x20}
	laterForkVersion       = [4]byte{0x02, 0x00, 0x10, 0x20}
	genesisValidatorsRoot  = sha256.Sum256([]byte("c15 genesis validators root"))
	genesisTime            = time.Unix(1606824023, 0)
)

// Chain holds the chain constants of a case.
type Chain struct {
	SlotsPerEpoch     uint64 `json:"slots_per_epoch"`
	EpochsPerPeriod   uint64 `json:"epochs_per_period"`
	AltairForkEpoch   uint64 `json:"altair_fork_epoch"`
	CommitteeSize     uint64 `json:"committee_size"`
	SubnetCount       uint64 `json:"subnet_count"`
	TargetAggregators uint64 `json:"target_aggregators"`
	// LaterForkEpoch: a later hard fork (new fork version, e.g. Bellatrix) at this epoch; 0 = none.
	LaterForkEpoch uint64 `json:"later_fork_epoch,omitempty"`
}

// Member is one validator of this vouch instance.
type Member struct {
	Validator uint64 `json:"validator"`
	Kind      string `json:"kind"` // plain | multi | dist
	// Missing: the account manager does not return the account when the controller asks for the accounts of
	// the duties (validator still in the committee but no longer served by this instance).
	Missing bool `json:"missing,omitempty"`
	// Fail*: the signature of this member fails (dist only: the entry of the multi-sign result is nil).
	FailSel bool `json:"fail_sel,omitempty"` // selection proofs
	FailMsg bool `json:"fail_msg,omitempty"` // sync committee messages
	FailCap bool `json:"fail_cap,omitempty"` // contribution and proofs
}

// Seat is the seats of one validator in the committee of one period.
type Seat struct {
	Validator uint64   `json:"validator"`
	Positions []uint64 `json:"positions"`
}

// Committee is our part of the sync committee of one period.
type Committee struct {
	Period uint64 `json:"period"`
	Seats  []Seat `json:"seats"`
}

// Case is one generated scenario.
type Case struct {
	Kind       string      `json:"kind"` // window | messages
	Chain      Chain       `json:"chain"`
	Members    []Member    `json:"members"`
	Committees []Committee `json:"committees"`
	// The controller is started at StartSlot + StartOffsetS seconds and the world then runs to the end of EndSlot.
	StartSlot    uint64 `json:"start_slot"`
	StartOffsetS int    `json:"start_offset_s"`
	EndSlot      uint64 `json:"end_slot"`
	// SubFaults: the beacon node fails every sync committee subscription submission made for these periods.
	SubFaults []SubFault `json:"sub_faults,omitempty"`
	// HeadFaultSlots: the head root provider fails every request made during these slots.
	HeadFaultSlots []uint64 `json:"head_fault_slots,omitempty"`
}

// SubFault makes the subscription submission for one period fail.
type SubFault struct {
	Period uint64 `json:"period"`
	Kind   string `json:"kind"` // plain | api-400 | api-503 | context
}

func (c *Case) headFault(slot uint64) bool {
	for _, s := range c.HeadFaultSlots {
		if s == slot {
			return true
		}
	}
	return false
}

// faultError builds an error as the go-eth2-client HTTP service returns it.
func faultError(kind, endpoint string) error {
	switch kind {
	case "api-400":
		return errors.Join(errors.New("failed to request "+endpoint), &api.Error{Method: "POST", Endpoint: endpoint, StatusCode: 400, Data: []byte(`{"code":400,"message":"bad request"}`)})
	case "api-503":
		return errors.Join(errors.New("failed to request "+endpoint), &api.Error{Method: "POST", Endpoint: endpoint, StatusCode: 503, Data: []byte(`{"code":503,"message":"beacon node is syncing"}`)})
	case "context":
		return errors.Join(errors.New("failed to call POST endpoint"), context.DeadlineExceeded)
	}
	return errors.New("no client is active")
}

func (c *Case) committeeOfPeriod(p uint64) []Seat {
	for i := range c.Committees {
		if c.Committees[i].Period == p {
			return c.Committees[i].Seats
		}
	}
	return nil
}

// ---- records ----

type dutyRec struct {
	Op        string // prepare | message
	Slot      uint64
	ClockSlot uint64
	ClockOff  time.Duration
	Seats     map[uint64][]uint64
	HasAcct   map[uint64]bool
	Drained   bool
	Err       string
	Panic     string
}

type aggRec struct {
	Slot       uint64
	ClockSlot  uint64
	Validators []uint64
}

type headCall struct {
	ClockSlot uint64
	Root      phase0.Root
}

type contribCall struct {
	Slot         uint64
	Subcommittee uint64
	Root         phase0.Root
}

type msgSubmit struct {
	ClockSlot uint64
	Msgs      []*altair.SyncCommitteeMessage
}

type capSubmit struct {
	ClockSlot uint64
	Caps      []*altair.SignedContributionAndProof
}

type dutyQuery struct {
	Epoch        uint64
	CurrentEpoch uint64
	Refused      bool
}

type world struct {
	c     *Case
	clock *fakes.VClock
	sched *fakes.Sched
	slog  *signLog

	mu          sync.Mutex
	duties      []dutyRec
	aggs        []aggRec
	heads       []headCall
	contribs    []contribCall
	msgSubmits  []msgSubmit
	capSubmits  []capSubmit
	dutyQueries []dutyQuery
	subscribes  int
	subFailures int
	headFails   int
	draining    bool

	accounts map[uint64]e2wtypes.Account
	baseG    int
}

// ---- beacon node doubles ----

func (w *world) Spec(context.Context, *api.SpecOpts) (*api.Response[map[string]any], error) {
	ch := w.c.Chain
	return &api.Response[map[string]any]{Data: map[string]any{
		"SECONDS_PER_SLOT":                         slotDuration,
		"SLOTS_PER_EPOCH":                          ch.SlotsPerEpoch,
		"EPOCHS_PER_SYNC_COMMITTEE_PERIOD":         ch.EpochsPerPeriod,
		"SYNC_COMMITTEE_SIZE":                      ch.CommitteeSize,
		"SYNC_COMMITTEE_SUBNET_COUNT":              ch.SubnetCount,
		"TARGET_AGGREGATORS_PER_SYNC_SUBCOMMITTEE": ch.TargetAggregators,
		"ALTAIR_FORK_EPOCH":                        ch.AltairForkEpoch,
		"ALTAIR_FORK_VERSION":                      phase0.Version(altairForkVersion),
		"GENESIS_FORK_VERSION":                     phase0.Version(genesisForkVersion),
		"DOMAIN_BEACON_PROPOSER":                   phase0.DomainType{0, 0, 0, 0},
		"DOMAIN_BEACON_ATTESTER":                   phase0.DomainType{1, 0, 0, 0},
		"DOMAIN_RANDAO":                            phase0.DomainType{2, 0, 0, 0},
		"DOMAIN_DEPOSIT":                           phase0.DomainType{3, 0, 0, 0},
		"DOMAIN_VOLUNTARY_EXIT":                    phase0.DomainType{4, 0, 0, 0},
		"DOMAIN_SELECTION_PROOF":                   phase0.DomainType{5, 0, 0, 0},
		"DOMAIN_AGGREGATE_AND_PROOF":               phase0.DomainType{6, 0, 0, 0},
		"DOMAIN_SYNC_COMMITTEE":                    phase0.DomainType(domSyncCommittee),
		"DOMAIN_SYNC_COMMITTEE_SELECTION_PROOF":    phase0.DomainType(domSyncSelectionProof),
		"DOMAIN_CONTRIBUTION_AND_PROOF":            phase0.DomainType(domContributionAndProo),
	}, Metadata: map[string]any{}}, nil
}

// forkVersionAt is the fork schedule of the chain.
func (w *world) forkVersionAt(epoch uint64) [4]byte {
	if l := w.c.Chain.LaterForkEpoch; l > 0 && l >= w.c.Chain.AltairForkEpoch && epoch >= l {
		return laterForkVersion
	}
	if epoch >= w.c.Chain.AltairForkEpoch {
		return altairForkVersion
	}
	return genesisForkVersion
}

func (w *world) Domain(_ context.Context, domainType phase0.DomainType, epoch phase0.Epoch) (phase0.Domain, error) {
	return phase0.Domain(refDomain(domainType, w.forkVersionAt(uint64(epoch)), genesisValidatorsRoot)), nil
}

func (w *world) GenesisDomain(_ context.Context, domainType phase0.DomainType) (phase0.Domain, error) {
	return phase0.Domain(refDomain(domainType, genesisForkVersion, genesisValidatorsRoot)), nil
}

func (*world) ProposerDuties(context.Context, *api.ProposerDutiesOpts) (*api.Response[[]*apiv1.ProposerDuty], error) {
	return &api.Response[[]*apiv1.ProposerDuty]{Data: []*apiv1.ProposerDuty{}, Metadata: map[string]any{}}, nil
}

func (*world) AttesterDuties(context.Context, *api.AttesterDutiesOpts) (*api.Response[[]*apiv1.AttesterDuty], error) {
	return &api.Response[[]*apiv1.AttesterDuty]{Data: []*apiv1.AttesterDuty{}, Metadata: map[string]any{}}, nil
}

// SyncCommitteeDuties answers like a beacon node: nothing before Altair (neither for an epoch before the fork
// nor from a head state before the fork), nothing beyond the next period; otherwise the seats of the
// requested validators in the committee of the period of the requested epoch.
func (w *world) SyncCommitteeDuties(_ context.Context, opts *api.SyncCommitteeDutiesOpts) (*api.Response[[]*apiv1.SyncCommitteeDuty], error) {
	ch := w.c.Chain
	cur := uint64(w.clock.CurrentEpoch())
	q := dutyQuery{Epoch: uint64(opts.Epoch), CurrentEpoch: cur}
	refuse := uint64(opts.Epoch) < ch.AltairForkEpoch || cur < ch.AltairForkEpoch ||
		uint64(opts.Epoch)/ch.EpochsPerPeriod > cur/ch.EpochsPerPeriod+1
	q.Refused = refuse
	w.mu.Lock()
	w.dutyQueries = append(w.dutyQueries, q)
	w.mu.Unlock()
	if refuse {
		return nil, errors.New("GET failed with status 400: epoch is outside the sync committee range of the head state")
	}
	asked := map[uint64]bool{}
	for _, i := range opts.Indices {
		asked[uint64(i)] = true
	}
	res := []*apiv1.SyncCommitteeDuty{}
	for _, s := range w.c.committeeOfPeriod(uint64(opts.Epoch) / ch.EpochsPerPeriod) {
		if !asked[s.Validator] {
			continue
		}
		d := &apiv1.SyncCommitteeDuty{ValidatorIndex: phase0.ValidatorIndex(s.Validator)}
		copy(d.PubKey[:], validatorPubKey(s.Validator).Marshal())
		for _, p := range s.Positions {
			d.ValidatorSyncCommitteeIndices = append(d.ValidatorSyncCommitteeIndices, phase0.CommitteeIndex(p))
		}
		res = append(res, d)
	}
	return &api.Response[[]*apiv1.SyncCommitteeDuty]{Data: res, Metadata: map[string]any{}}, nil
}

func (*world) Events(context.Context, []string, consensusclient.EventHandlerFunc) error { return nil }

func (*world) BeaconBlockHeader(context.Context, *api.BeaconBlockHeaderOpts) (*api.Response[*apiv1.BeaconBlockHeader], error) {
	return nil, errors.New("not available")
}

func (*world) SignedBeaconBlock(context.Context, *api.SignedBeaconBlockOpts) (*api.Response[*spec.VersionedSignedBeaconBlock], error) {
	return nil, errors.New("not available")
}

// headRoot is the k-th head root the node reports during a slot.
func headRoot(slot uint64, k int) phase0.Root {
	return sha256.Sum256([]byte(fmt.Sprintf("c15 head slot %d call %d", slot, k)))
}

func (w *world) BeaconBlockRoot(_ context.Context, opts *api.BeaconBlockRootOpts) (*api.Response[*phase0.Root], error) {
	if opts.Block != "head" {
		return nil, errors.New("only head is scripted")
	}
	cs := uint64(w.clock.CurrentSlot())
	if w.c.headFault(cs) {
		w.mu.Lock()
		w.headFails++
		w.mu.Unlock()
		return nil, faultError("api-503", "/eth/v1/beacon/blocks/head/root")
	}
	w.mu.Lock()
	k := 0
	for _, h := range w.heads {
		if h.ClockSlot == cs {
			k++
		}
	}
	r := headRoot(cs, k)
	w.heads = append(w.heads, headCall{ClockSlot: cs, Root: r})
	w.mu.Unlock()
	return &api.Response[*phase0.Root]{Data: &r, Metadata: map[string]any{}}, nil
}

// contributionFor is the contribution the node holds for (slot, subcommittee, root).
func contributionFor(slot, subcommittee uint64, root phase0.Root) *altair.SyncCommitteeContribution {
	seed := sha256.Sum256(append([]byte(fmt.Sprintf("c15 contribution %d %d ", slot, subcommittee)), root[:]...))
	c := &altair.SyncCommitteeContribution{
		Slot:              phase0.Slot(slot),
		BeaconBlockRoot:   root,
		SubcommitteeIndex: subcommittee,
		AggregationBits:   make([]byte, 16),
	}
	copy(c.AggregationBits, seed[:16])
	for i := 0; i < 3; i++ {
		h := sha256.Sum256(append(seed[:], byte(i)))
		copy(c.Signature[32*i:], h[:])
	}
	return c
}

func (w *world) SyncCommitteeContribution(_ context.Context, opts *api.SyncCommitteeContributionOpts) (*api.Response[*altair.SyncCommitteeContribution], error) {
	w.mu.Lock()
	w.contribs = append(w.contribs, contribCall{Slot: uint64(opts.Slot), Subcommittee: opts.SubcommitteeIndex, Root: opts.BeaconBlockRoot})
	w.mu.Unlock()
	return &api.Response[*altair.SyncCommitteeContribution]{
		Data:     contributionFor(uint64(opts.Slot), opts.SubcommitteeIndex, opts.BeaconBlockRoot),
		Metadata: map[string]any{},
	}, nil
}

func (w *world) SubmitSyncCommitteeMessages(_ context.Context, messages []*altair.SyncCommitteeMessage) error {
	w.mu.Lock()
	w.msgSubmits = append(w.msgSubmits, msgSubmit{ClockSlot: uint64(w.clock.CurrentSlot()), Msgs: messages})
	w.mu.Unlock()
	return nil
}

func (w *world) SubmitSyncCommitteeContributions(_ context.Context, caps []*altair.SignedContributionAndProof) error {
	w.mu.Lock()
	w.capSubmits = append(w.capSubmits, capSubmit{ClockSlot: uint64(w.clock.CurrentSlot()), Caps: caps})
	w.mu.Unlock()
	return nil
}

// SubmitSyncCommitteeSubscriptions is the beacon node end of the real sync committee subscriber.
func (w *world) SubmitSyncCommitteeSubscriptions(_ context.Context, subs []*apiv1.SyncCommitteeSubscription) error {
	w.mu.Lock()
	w.subscribes++
	w.mu.Unlock()
	if len(subs) == 0 || subs[0] == nil || subs[0].UntilEpoch == 0 {
		return nil
	}
	period := (uint64(subs[0].UntilEpoch) - 1) / w.c.Chain.EpochsPerPeriod
	for _, f := range w.c.SubFaults {
		if f.Period == period {
			w.mu.Lock()
			w.subFailures++
			w.mu.Unlock()
			return faultError(f.Kind, "/eth/v1/validator/sync_committee_subscriptions")
		}
	}
	return nil
}

// ---- account manager double ----

func (w *world) allAccounts() map[phase0.ValidatorIndex]e2wtypes.Account {
	res := map[phase0.ValidatorIndex]e2wtypes.Account{}
	for v, a := range w.accounts {
		res[phase0.ValidatorIndex(v)] = a
	}
	return res
}

func (w *world) ValidatingAccountsForEpoch(context.Context, phase0.Epoch) (map[phase0.ValidatorIndex]e2wtypes.Account, error) {
	return w.allAccounts(), nil
}

func (w *world) ValidatingAccountsForEpochByIndex(_ context.Context, _ phase0.Epoch, indices []phase0.ValidatorIndex) (map[phase0.ValidatorIndex]e2wtypes.Account, error) {
	res := map[phase0.ValidatorIndex]e2wtypes.Account{}
	for _, i := range indices {
		if a, ok := w.accounts[uint64(i)]; ok {
			res[i] = a
		}
	}
	return res, nil
}

func (w *world) SyncCommitteeAccountsForEpoch(context.Context, phase0.Epoch) (map[phase0.ValidatorIndex]e2wtypes.Account, error) {
	return w.allAccounts(), nil
}

func (w *world) SyncCommitteeAccountsForEpochByIndex(_ context.Context, _ phase0.Epoch, indices []phase0.ValidatorIndex) (map[phase0.ValidatorIndex]e2wtypes.Account, error) {
	missing := map[uint64]bool{}
	for _, m := range w.c.Members {
		if m.Missing {
			missing[m.Validator] = true
		}
	}
	res := map[phase0.ValidatorIndex]e2wtypes.Account{}
	for _, i := range indices {
		if a, ok := w.accounts[uint64(i)]; ok && !missing[uint64(i)] {
			res[i] = a
		}
	}
	return res, nil
}

func (*world) Refresh(context.Context) {}

// ---- recording wrappers around the messenger and the aggregator ----

type recMessenger struct {
	w     *world
	inner synccommitteemessenger.Service
}

func (m *recMessenger) record(op string, duty *synccommitteemessenger.Duty) int {
	r := dutyRec{
		Op:        op,
		Slot:      uint64(duty.Slot()),
		ClockSlot: uint64(m.w.clock.CurrentSlot()),
		Seats:     map[uint64][]uint64{},
		HasAcct:   map[uint64]bool{},
	}
	r.ClockOff = m.w.clock.Now().Sub(m.w.clock.StartOfSlot(phase0.Slot(r.ClockSlot)))
	for v, ps := range duty.ContributionIndices() {
		l := make([]uint64, 0, len(ps))
		for _, p := range ps {
			l = append(l, uint64(p))
		}
		r.Seats[uint64(v)] = l
		r.HasAcct[uint64(v)] = duty.Account(v) != nil
	}
	m.w.mu.Lock()
	r.Drained = m.w.draining
	m.w.duties = append(m.w.duties, r)
	i := len(m.w.duties) - 1
	m.w.mu.Unlock()
	return i
}

func (m *recMessenger) finish(i int, err error, p any) {
	m.w.mu.Lock()
	if err != nil {
		m.w.duties[i].Err = err.Error()
	}
	if p != nil {
		m.w.duties[i].Panic = fmt.Sprint(p)
	}
	m.w.mu.Unlock()
}

func (m *recMessenger) Prepare(ctx context.Context, duty *synccommitteemessenger.Duty) (err error) {
	i := m.record("prepare", duty)
	if m.inner == nil {
		return nil
	}
	defer func() {
		p := recover()
		m.finish(i, err, p)
		if p != nil {
			err = fmt.Errorf("panic: %v", p)
		}
	}()
	return m.inner.Prepare(ctx, duty)
}

func (m *recMessenger) Message(ctx context.Context, duty *synccommitteemessenger.Duty) (msgs []*altair.SyncCommitteeMessage, err error) {
	i := m.record("message", duty)
	if m.inner == nil {
		return nil, nil
	}
	defer func() {
		p := recover()
		m.finish(i, err, p)
		if p != nil {
			err = fmt.Errorf("panic: %v", p)
		}
	}()
	return m.inner.Message(ctx, duty)
}

func (m *recMessenger) GetDataUsedForSlot(slot phase0.Slot) (synccommitteemessenger.SlotData, bool) {
	if m.inner == nil {
		return synccommitteemessenger.SlotData{}, false
	}
	return m.inner.GetDataUsedForSlot(slot)
}

func (m *recMessenger) RemoveHistoricDataUsedForSlotVerification(slot phase0.Slot) {
	if m.inner != nil {
		m.inner.RemoveHistoricDataUsedForSlotVerification(slot)
	}
}

type recAggregator struct {
	w     *world
	inner synccommitteeaggregator.Service
}

func (a *recAggregator) SetBeaconBlockRoot(slot phase0.Slot, root phase0.Root) {
	if a.inner != nil {
		a.inner.SetBeaconBlockRoot(slot, root)
	}
}

func (a *recAggregator) Aggregate(ctx context.Context, duty *synccommitteeaggregator.Duty) {
	r := aggRec{Slot: uint64(duty.Slot), ClockSlot: uint64(a.w.clock.CurrentSlot())}
	for _, v := range duty.ValidatorIndices {
		r.Validators = append(r.Validators, uint64(v))
	}
	a.w.mu.Lock()
	a.w.aggs = append(a.w.aggs, r)
	a.w.mu.Unlock()
	if a.inner != nil {
		a.inner.Aggregate(ctx, duty)
	}
}

// ---- construction and simulation ----

// quiesce waits until the goroutines started by vouch have ended.
func (w *world) quiesce() error {
	deadline := time.Now().Add(20 * time.Second)
	ok := 0
	for {
		if runtime.NumGoroutine() <= w.baseG {
			ok++
			if ok >= 3 {
				// confirm with a consistent (stop-the-world) count: NumGoroutine can be transiently too low
				if fakes.GoroutineCount() <= w.baseG {
					return nil
				}
				ok = 0
			}
		} else {
			ok = 0
		}
		if time.Now().After(deadline) {
			return fmt.Errorf("goroutines did not end: %d running, baseline %d", runtime.NumGoroutine(), w.baseG)
		}
		runtime.Gosched()
		time.Sleep(50 * time.Microsecond)
	}
}

const (
	prepPrefix = "Prepare sync committee messages for slot "
	msgPrefix  = "Sync committee messages for slot "
	aggPrefix  = "Sync committee aggregation for slot "
	epochJob   = "Epoch ticker"
)

// fireDue fires every one-off job that is due, in (time, sequence) order, including the jobs these schedule.
func (w *world) fireDue() error {
	now := w.clock.Now()
	for {
		fired := false
		for _, j := range w.sched.Jobs() {
			if j.Periodic || j.Time.After(now) {
				continue
			}
			if w.sched.Fire(j.Name) {
				fired = true
			}
		}
		if !fired {
			return nil
		}
		if err := w.quiesce(); err != nil {
			return err
		}
	}
}

// runWorld builds the world of the case, starts the real controller and runs the clock to the end of EndSlot.
func runWorld(c *Case) (*world, error) {
	zerolog.SetGlobalLevel(zerolog.Disabled)
	initBLS()
	ctx, cancel := context.WithCancel(context.Background())
	defer cancel()

	w := &world{c: c, slog: &signLog{}, accounts: map[uint64]e2wtypes.Account{}}
	w.clock = fakes.NewVClock(genesisTime, slotDuration, c.Chain.SlotsPerEpoch)
	w.sched = fakes.NewSched()
	for _, m := range c.Members {
		a := newAccount(m.Kind, m.Validator, w.slog)
		if m.FailSel {
			setFail(a, domSyncSelectionProof)
		}
		if m.FailMsg {
			setFail(a, domSyncCommittee)
		}
		if m.FailCap {
			setFail(a, domContributionAndProo)
		}
		w.accounts[m.Validator] = a
	}
	w.clock.SetSlot(c.StartSlot, time.Duration(c.StartOffsetS)*time.Second)

	rm := &recMessenger{w: w}
	ra := &recAggregator{w: w}
	if c.Kind == "messages" {
		signer, err := standardsigner.New(ctx,
			standardsigner.WithLogLevel(zerolog.Disabled),
			standardsigner.WithMonitor(nullmetrics.New()),
			standardsigner.WithClientMonitor(nullmetrics.New()),
			standardsigner.WithSpecProvider(w),
			standardsigner.WithDomainProvider(w),
		)
		if err != nil {
			return nil, fmt.Errorf("signer: %w", err)
		}
		agg, err := standardaggregator.New(ctx,
			standardaggregator.WithLogLevel(zerolog.Disabled),
			standardaggregator.WithMonitor(nullmetrics.New()),
			standardaggregator.WithSpecProvider(w),
			standardaggregator.WithBeaconBlockRootProvider(w),
			standardaggregator.WithContributionAndProofSigner(signer),
			standardaggregator.WithValidatingAccountsProvider(w),
			standardaggregator.WithSyncCommitteeContributionProvider(w),
			standardaggregator.WithSyncCommitteeContributionsSubmitter(w),
			standardaggregator.WithChainTime(w.clock),
		)
		if err != nil {
			return nil, fmt.Errorf("aggregator: %w", err)
		}
		msgr, err := standardmessenger.New(ctx,
			standardmessenger.WithLogLevel(zerolog.Disabled),
			standardmessenger.WithMonitor(nullmetrics.New()),
			standardmessenger.WithProcessConcurrency(2),
			standardmessenger.WithSpecProvider(w),
			standardmessenger.WithChainTimeService(w.clock),
			standardmessenger.WithSyncCommitteeAggregator(agg),
			standardmessenger.WithBeaconBlockRootProvider(w),
			standardmessenger.WithSyncCommitteeMessagesSubmitter(w),
			standardmessenger.WithSyncCommitteeSubscriptionsSubmitter(w),
			standardmessenger.WithValidatingAccountsProvider(w),
			standardmessenger.WithSyncCommitteeSelectionSigner(signer),
			standardmessenger.WithSyncCommitteeRootSigner(signer),
		)
		if err != nil {
			return nil, fmt.Errorf("messenger: %w", err)
		}
		rm.inner = msgr
		ra.inner = agg
	}

	subscriber, err := standardsubscriber.New(ctx,
		standardsubscriber.WithLogLevel(zerolog.Disabled),
		standardsubscriber.WithMonitor(nullmetrics.New()),
		standardsubscriber.WithSyncCommitteeSubmitter(w),
	)
	if err != nil {
		return nil, fmt.Errorf("subscriber: %w", err)
	}

	w.baseG = fakes.GoroutineCount()
	_, err = controller.New(ctx,
		controller.WithLogLevel(zerolog.Disabled),
		controller.WithMonitor(nullmetrics.New()),
		controller.WithSpecProvider(w),
		controller.WithChainTimeService(w.clock),
		controller.WithWaitedForGenesis(false),
		controller.WithProposerDutiesProvider(w),
		controller.WithAttesterDutiesProvider(w),
		controller.WithSyncCommitteeDutiesProvider(w),
		controller.WithSyncCommitteeSubscriber(subscriber),
		controller.WithEventsProvider(w),
		controller.WithValidatingAccountsProvider(w),
		controller.WithProposalsPreparer(mockproposalpreparer.New()),
		controller.WithScheduler(w.sched),
		controller.WithAttester(mockattester.New()),
		controller.WithSyncCommitteeMessenger(rm),
		controller.WithSyncCommitteeAggregator(ra),
		controller.WithBeaconBlockProposer(mockbeaconblockproposer.New()),
		controller.WithBeaconCommitteeSubscriber(mockbeaconcommitteesubscriber.New()),
		controller.WithAttestationAggregator(mockattestationaggregator.New()),
		controller.WithAccountsRefresher(w),
		controller.WithBlockToSlotSetter(mockcache.New(map[phase0.Root]phase0.Slot{}).(cache.BlockRootToSlotSetter)),
		controller.WithBeaconBlockHeadersProvider(w),
		controller.WithSignedBeaconBlockProvider(w),
	)
	if err != nil {
		return nil, fmt.Errorf("controller: %w", err)
	}
	if err := w.quiesce(); err != nil {
		return nil, err
	}
	if w.sched.Get(epochJob) == nil {
		return nil, errors.New("controller did not register the epoch ticker")
	}

	// Jobs that were already due when the controller started run at once.
	if err := w.fireDue(); err != nil {
		return nil, err
	}
	// The instants inside a slot at which due jobs are fired: slot start, message time (1/3), the middle
	// (prepare jobs of slot+2), aggregation time (2/3).
	grid := []time.Duration{0, slotDuration / 3, slotDuration / 2, slotDuration * 2 / 3}
	startOff := time.Duration(c.StartOffsetS) * time.Second
	for slot := c.StartSlot; slot <= c.EndSlot; slot++ {
		for _, off := range grid {
			if slot == c.StartSlot && off <= startOff {
				continue
			}
			w.clock.SetSlot(slot, off)
			if off == 0 && slot%c.Chain.SlotsPerEpoch == 0 {
				if !w.sched.Fire(epochJob) {
					return nil, errors.New("epoch ticker vanished")
				}
				if err := w.quiesce(); err != nil {
					return nil, err
				}
			}
			if err := w.fireDue(); err != nil {
				return nil, err
			}
		}
	}

	// Window cases: look into the prepare jobs that are still in the future (which committee do they carry).
	if c.Kind == "window" {
		w.mu.Lock()
		w.draining = true
		w.mu.Unlock()
		for _, j := range w.sched.Jobs() {
			if strings.HasPrefix(j.Name, prepPrefix) {
				w.sched.Fire(j.Name)
			}
		}
		if err := w.quiesce(); err != nil {
			return nil, err
		}
	}
	return w, nil
}

func sortedKeys(m map[uint64][]uint64) []uint64 {
	ks := make([]uint64, 0, len(m))
	for k := range m {
		ks = append(ks, k)
	}
	sort.Slice(ks, func(i, j int) bool { return ks[i] < ks[j] })
	return ks
}

func u64le(b []byte) uint64 { return binary.LittleEndian.Uint64(b) }
