package c02

// Two further program shapes:
//
//	Far  the job's runtime lies far in the future (+24h ... year 200000); the job
//	     is then cancelled, started early, or its parent context is cancelled.  It
//	     must not run before it is started early, and nothing waits for the runtime.
//	Dup  several goroutines released by a barrier schedule the same name at the
//	     same instant; exactly one call may be accepted, and what was accepted is
//	     one job: cancelled clearly before its time nothing runs, otherwise it runs
//	     exactly once.

import (
	"context"
	"errors"
	"fmt"
	"strings"
	"sync"
	"time"

	"github.com/attestantio/vouch/services/scheduler"
	"github.com/attestantio/vouch/services/scheduler/advanced"
	"github.com/rs/zerolog"
	"pgregory.net/rapid"
)

// Far is the far-future program shape.
type Far struct {
	// When: +24h | +100y | +292y | +293y | +1000y | y9999 | y200000
	When string `json:"when"`
	// Follow: cancel (CancelJob) | run (RunJob) | ctx (parent context cancelled)
	Follow string `json:"follow"`
}

// Dup is the concurrent-schedule program shape.
type Dup struct {
	Mult int `json:"mult"` // 2..16 concurrent Schedule(Periodic)Job calls of the same name
	// Follow: cancel (CancelJob clearly before the time) | timer (nothing) | run (RunJob)
	Follow string `json:"follow"`
}

var farWhens = []string{"+24h", "+100y", "+292y", "+293y", "+1000y", "y9999", "y200000"}

func farTime(t0 time.Time, when string) time.Time {
	switch when {
	case "+24h":
		return t0.Add(24 * time.Hour)
	case "+100y":
		return t0.AddDate(100, 0, 0)
	case "+292y":
		return t0.AddDate(292, 0, 0)
	case "+293y":
		return t0.AddDate(293, 0, 0)
	case "+1000y":
		return t0.AddDate(1000, 0, 0)
	case "y9999":
		return time.Date(9999, 12, 31, 23, 59, 59, 0, time.UTC)
	default: // y200000
		return time.Date(200000, 1, 1, 0, 0, 0, 0, time.UTC)
	}
}

func genFar(t *rapid.T, c *Case) {
	c.Far = &Far{
		When:   rapid.SampledFrom(farWhens).Draw(t, "farWhen"),
		Follow: rapid.SampledFrom([]string{"cancel", "cancel", "run", "run", "ctx"}).Draw(t, "farFollow"),
	}
	c.TicksUs = []int64{0} // not used: the runtime is Far.When
	c.PeriodUs, c.HorizonUs = 0, 0
	c.Ops, c.Resched, c.Recycle = nil, rapid.Bool().Draw(t, "resched"), nil
	c.Reps = (reps() + 1) / 2
}

func genDup(t *rapid.T, c *Case) {
	c.Dup = &Dup{
		Mult:   rapid.SampledFrom([]int{2, 3, 4, 8, 16, 16}).Draw(t, "dupMult"),
		Follow: rapid.SampledFrom([]string{"cancel", "cancel", "timer", "run"}).Draw(t, "dupFollow"),
	}
	c.TicksUs = []int64{30000}
	if c.Periodic {
		c.Dup.Follow = "cancel"
		c.PeriodUs, c.HorizonUs = 3000, 40000
	} else {
		c.PeriodUs, c.HorizonUs = 0, 0
	}
	c.Ops, c.Resched, c.Recycle = nil, false, nil
}

type shapeObs struct {
	// Far
	farAt     time.Time
	windowN   int  // runs seen at the end of the settle window, before the follow-up
	windowOK  bool // the window was observed (M2)
	existed   bool // JobExists at the end of the window
	followErr error
	followAt  time.Duration // start of the follow-up call
	followEnd time.Duration
	// Dup
	schedErrs []error
	schedEnds []time.Duration // return instants of the schedule calls
	parked    bool
}

// runFar executes a far-future program once.
func runFar(c *Case, base int, can *canary, leaked map[string]bool, leakedSelect int) (*obs, error) {
	o := &obs{parkedAt: -1, sh: &shapeObs{}}
	sh := o.sh
	bg := context.Background()
	svc, err := advanced.New(bg, advanced.WithLogLevel(zerolog.Disabled))
	if err != nil {
		return nil, err
	}
	ctx, cancelCtx := context.WithCancel(bg)
	defer cancelCtx()
	rec := &recorder{dur: us(c.JobDurUs)}
	can.reset()
	var hmu sync.Mutex
	asked := 0
	t0 := time.Now()
	rec.t0 = t0
	sh.farAt = farTime(t0, c.Far.When)
	runtimeFunc := func(context.Context) (time.Time, error) {
		hmu.Lock()
		defer hmu.Unlock()
		asked++
		o.handouts = append(o.handouts, time.Since(t0))
		if asked > 1 {
			o.exhausted = true
			return time.Time{}, scheduler.ErrNoMoreInstances
		}
		return sh.farAt, nil
	}
	if c.Periodic {
		err = svc.SchedulePeriodicJob(ctx, "c02", jobName, runtimeFunc, rec.job)
	} else {
		err = svc.ScheduleJob(ctx, "c02", jobName, sh.farAt, rec.job)
	}
	if err != nil {
		return nil, fmt.Errorf("schedule: %w", err)
	}
	if c.Mode != "M1" {
		// settle window: the job has no business running now
		time.Sleep(3 * time.Millisecond)
		rs, _ := rec.snapshot()
		sh.windowN, sh.windowOK = len(rs), true
		sh.existed = svc.JobExists(bg, jobName)
	}
	o.ops = make([]opRes, 1)
	switch c.Far.Follow {
	case "cancel":
		o.ops[0].kind = "cancel"
		callOp(svc, cancelCtx, "cancel", "", t0, &o.ops[0])
	case "run":
		o.ops[0].kind = "run"
		callOp(svc, cancelCtx, "run", "", t0, &o.ops[0])
	default:
		o.ops[0].kind = "ctxcancel"
		callOp(svc, cancelCtx, "ctxcancel", "", t0, &o.ops[0])
	}
	sh.followErr, sh.followAt, sh.followEnd = o.ops[0].err, o.ops[0].start, o.ops[0].end
	if c.Far.Follow != "ctx" && sh.followErr != nil {
		// the request was refused: end the job through its parent context so that
		// nothing is left waiting for the far runtime
		time.Sleep(time.Millisecond)
		cancelCtx()
	}
	progress := func() [3]int {
		hmu.Lock()
		h := len(o.handouts)
		hmu.Unlock()
		rec.mu.Lock()
		defer rec.mu.Unlock()
		return [3]int{h, len(rec.runs), rec.cur}
	}
	var stuck *schedGoroutine
	o.settled, stuck = settle(base, time.Now(), can, leaked, progress)
	o.runs, o.maxConc = rec.snapshot()
	if stuck != nil {
		o.stuck, o.stuckDump = stuck.state, stuck.text
		return o, nil
	}
	finishObs(c, o, svc, base, can)
	return o, nil
}

// judgeFar: a job whose time is far away runs only when it is started early.
func judgeFar(c *Case, o *obs) []verdict {
	vs := judgeCommon(c, o)
	sh := o.sh
	kind := "oneoff"
	if c.Periodic {
		kind = "periodic"
	}
	what := fmt.Sprintf("runtime %s (%s); after a 3ms window runs=%d JobExists=%v", c.Far.When, sh.farAt.UTC().Format(time.RFC3339), sh.windowN, sh.existed)
	// a run that starts before an early-run request began (or any run, if there was none)
	early := 0
	for _, r := range o.runs {
		if c.Far.Follow != "run" || r.start < sh.followAt {
			early++
		}
	}
	if early > 0 {
		vs = append(vs, verdict{kind + "-ran-before-its-time", "the job ran without having been started early, long before its time: " + what})
		return vs
	}
	n := len(o.runs)
	switch c.Far.Follow {
	case "cancel", "ctx":
		// covered by "early" above: n > 0 is impossible here
	case "run":
		if sh.followErr == nil && o.settled {
			if n == 0 {
				sig := "oneoff-dropped-after-early-run"
				if c.Periodic {
					sig = "periodic-early-run-dropped"
				}
				vs = append(vs, verdict{sig, "RunJob returned nil and the job never ran: " + what})
			}
			if n > 1 {
				vs = append(vs, verdict{kind + "-ran-twice", fmt.Sprintf("the job ran %d times: %s", n, what)})
			}
		}
		if sh.followErr != nil && sh.windowOK && sh.windowN == 0 && n == 0 {
			// pending, not cancelled, yet the early-run request is refused
			vs = append(vs, verdict{kind + "-run-now-refused", "RunJob on the pending job failed: " + what})
		}
	}
	if c.Far.Follow == "cancel" && sh.followErr != nil && n == 0 {
		vs = append(vs, verdict{kind + "-cancel-refused", "CancelJob on the pending job failed: " + what})
	}
	vs = append(vs, judgeNameFree(c, o)...)
	return vs
}

// runDup executes a concurrent-schedule program once.
func runDup(c *Case, base int, can *canary, leaked map[string]bool, leakedSelect int) (*obs, error) {
	o := &obs{parkedAt: -1, sh: &shapeObs{}}
	sh := o.sh
	bg := context.Background()
	svc, err := advanced.New(bg, advanced.WithLogLevel(zerolog.Disabled))
	if err != nil {
		return nil, err
	}
	ctx, cancelCtx := context.WithCancel(bg)
	defer cancelCtx()
	rec := &recorder{dur: us(c.JobDurUs)}
	can.reset()
	o.ticks = []time.Duration{us(c.TicksUs[0])}

	var hmu sync.Mutex
	var t0 time.Time
	mkRuntimeFunc := func() scheduler.RuntimeFunc {
		first := true
		return func(context.Context) (time.Time, error) {
			hmu.Lock()
			defer hmu.Unlock()
			now := time.Since(t0)
			var v time.Duration
			switch {
			case first:
				first = false
				v = o.ticks[0]
			case now >= us(c.HorizonUs):
				o.exhausted = true
				return time.Time{}, scheduler.ErrNoMoreInstances
			default:
				p := us(c.PeriodUs)
				v = o.ticks[0] + (time.Duration(int64((now-o.ticks[0])/p))+1)*p
				if now < o.ticks[0] {
					v = o.ticks[0]
				}
			}
			o.handouts = append(o.handouts, now)
			o.handVals = append(o.handVals, v)
			return t0.Add(v), nil
		}
	}
	sh.schedErrs = make([]error, c.Dup.Mult)
	sh.schedEnds = make([]time.Duration, c.Dup.Mult)
	var wg sync.WaitGroup
	gate := make(chan struct{})
	t0 = time.Now().Add(300 * time.Microsecond) // the common release instant
	rec.t0 = t0
	runtime0 := t0.Add(o.ticks[0])
	for i := 0; i < c.Dup.Mult; i++ {
		wg.Add(1)
		go func(i int) {
			defer wg.Done()
			rf := mkRuntimeFunc()
			<-gate
			for time.Until(t0) > 0 {
			}
			if c.Periodic {
				sh.schedErrs[i] = svc.SchedulePeriodicJob(ctx, "c02", jobName, rf, rec.job)
			} else {
				sh.schedErrs[i] = svc.ScheduleJob(ctx, "c02", jobName, runtime0, rec.job)
			}
			sh.schedEnds[i] = time.Since(t0)
		}(i)
	}
	close(gate)
	wg.Wait()
	// follow-up while the job is pending, clearly before its time
	time.Sleep(4 * time.Millisecond)
	sh.parked = jobGoroutineParked(leakedSelect)
	o.ops = make([]opRes, 1)
	switch c.Dup.Follow {
	case "cancel":
		o.ops[0].kind = "cancel"
		callOp(svc, cancelCtx, "cancel", "", t0, &o.ops[0])
	case "run":
		o.ops[0].kind = "run"
		callOp(svc, cancelCtx, "run", "", t0, &o.ops[0])
	default:
		o.ops = nil
	}
	// every job that was accepted, known to the table or not, is due by now+margin
	end := runtime0.Add(margin)
	if c.Periodic {
		end = t0.Add(us(c.HorizonUs+c.PeriodUs) + margin)
	}
	if d := time.Until(end); d > 0 {
		time.Sleep(d)
	}
	progress := func() [3]int {
		hmu.Lock()
		h := len(o.handouts)
		hmu.Unlock()
		rec.mu.Lock()
		defer rec.mu.Unlock()
		return [3]int{h, len(rec.runs), rec.cur}
	}
	var stuck *schedGoroutine
	o.settled, stuck = settle(base, end, can, leaked, progress)
	o.runs, o.maxConc = rec.snapshot()
	if stuck != nil {
		o.stuck, o.stuckDump = stuck.state, stuck.text
		return o, nil
	}
	finishObs(c, o, svc, base, can)
	return o, nil
}

// judgeDup: a name is accepted once, and what was accepted is one job.
func judgeDup(c *Case, o *obs) []verdict {
	vs := judgeCommon(c, o)
	sh := o.sh
	okN, other := 0, 0
	for _, e := range sh.schedErrs {
		switch {
		case e == nil:
			okN++
		case !errors.Is(e, scheduler.ErrJobAlreadyExists):
			other++
		}
	}
	// The calls count as concurrent attempts on one free name only if all of them
	// had returned while the accepted job was still pending: on a stalled machine a
	// late caller may find the name free again because the job has already run.
	var lastEnd time.Duration
	for _, e := range sh.schedEnds {
		if e > lastEnd {
			lastEnd = e
		}
	}
	if lastEnd+margin > o.ticks[0] {
		return vs
	}
	what := fmt.Sprintf("%d concurrent schedule calls of one name: %d accepted, %d other errors", c.Dup.Mult, okN, other)
	if okN > 1 {
		return append(vs, verdict{"name-accepted-twice", "more than one of the concurrent schedule calls for the same name was accepted: " + what})
	}
	if okN == 0 {
		return append(vs, verdict{"schedule-refused-for-free-name", "none of the concurrent schedule calls for a free name was accepted: " + what})
	}
	if !o.settled {
		return vs
	}
	n := len(o.runs)
	var op *opRes
	if len(o.ops) > 0 {
		op = &o.ops[0]
	}
	clearly := op != nil && op.end+margin <= o.ticks[0] && sh.parked && !o.perturbed
	if c.Periodic {
		if o.maxConc > 1 {
			vs = append(vs, verdict{"periodic-overlap", "periodic job function ran concurrently with itself: " + what})
		}
		if clearly && op.err == nil && n > 0 {
			vs = append(vs, verdict{"periodic-ran-after-cancel", "cancelled clearly before its first runtime, yet it ran: " + what})
		}
		if clearly && op.err != nil {
			vs = append(vs, verdict{"periodic-cancel-refused", "CancelJob on the pending job failed: " + what})
		}
		return append(vs, judgeNameFree(c, o)...)
	}
	switch c.Dup.Follow {
	case "cancel":
		if clearly && op.err == nil && n > 0 {
			vs = append(vs, verdict{"oneoff-ran-after-cancel", "cancelled clearly before its time, yet a job of that name ran: " + what})
		}
		if clearly && op.err != nil {
			vs = append(vs, verdict{"oneoff-cancel-refused", "CancelJob on the pending job failed: " + what})
		}
		if n > 1 {
			vs = append(vs, verdict{"oneoff-ran-twice", fmt.Sprintf("one accepted one-off job, %d runs: %s", n, what)})
		}
	default:
		if n > 1 {
			vs = append(vs, verdict{"oneoff-ran-twice", fmt.Sprintf("one accepted one-off job, %d runs: %s", n, what)})
		}
		if n == 0 {
			sig := "oneoff-dropped"
			if op != nil {
				sig = "oneoff-dropped-after-early-run"
			}
			vs = append(vs, verdict{sig, "the accepted job was not cancelled and never ran: " + what})
		}
	}
	return append(vs, judgeNameFree(c, o)...)
}

// finishObs: table state after the job finished, perturbation, optional re-use of
// the name (shared by the Far and Dup shapes).
func finishObs(c *Case, o *obs, svc *advanced.Service, base int, can *canary) {
	bg := context.Background()
	o.exists = svc.JobExists(bg, jobName)
	for _, n := range svc.ListJobs(bg) {
		if n == jobName {
			o.listed = true
		}
	}
	if can.gap() > perturbedGap {
		o.perturbed = true
	}
	for _, r := range o.runs {
		if r.end < 0 || r.end-r.start > us(c.JobDurUs)+perturbedGap {
			o.perturbed = true
		}
	}
	if c.Resched && o.settled {
		rec2 := &recorder{t0: time.Now()}
		o.reschedErr = svc.ScheduleJob(bg, "c02", jobName, time.Now().Add(300*time.Microsecond), rec2.job)
		if o.reschedErr == nil {
			o.reschedOK = waitGoroutines(base, settleCeiling)
			r2, _ := rec2.snapshot()
			o.reschedN = len(r2)
		} else {
			o.reschedOK = true
		}
	}
}

// ---------------------------------------------------------------------------
// Multi: several one-off jobs whose names share prefixes, all due at the same
// instant clearly ahead; CancelJobs(prefix) is called once.  Reference: exactly
// the jobs whose name has the prefix (strings.HasPrefix) are cancelled: they are
// unlisted at once and never run; every other job stays listed and runs once.

// Multi is the CancelJobs program shape.
type Multi struct {
	Names  []string `json:"names"`
	Prefix string   `json:"prefix"`
}

var multiNames = []string{
	"Attestations for slot 12",
	"Attestations for slot 123",
	"Attestations for slot 12 x",
	"Attestations for slot 13",
	"Attestations",
	"Attest",
	"Sync committee messages for slot 12",
	"Other job",
}

func genMulti(t *rapid.T, c *Case) {
	n := rapid.IntRange(2, 6).Draw(t, "nNames")
	perm := rapid.Permutation(multiNames).Draw(t, "names")
	m := &Multi{Names: append([]string(nil), perm[:n]...)}
	src := rapid.SampledFrom(m.Names).Draw(t, "prefixOf")
	switch rapid.IntRange(0, 5).Draw(t, "prefixCut") {
	case 0:
		m.Prefix = src
	case 1:
		m.Prefix = ""
	default:
		m.Prefix = src[:rapid.IntRange(1, len(src)).Draw(t, "cut")]
	}
	c.Multi = m
	c.Periodic = false
	c.TicksUs = []int64{40000}
	c.PeriodUs, c.HorizonUs = 0, 0
	c.Ops, c.Resched, c.Recycle = nil, false, nil
	c.Reps = (reps() + 1) / 2
}

type multiObs struct {
	callEnd      time.Duration
	parked       bool
	existsAfter  []bool // JobExists right after CancelJobs returned
	listedAfter  []bool
	runs         []int
	existsAtEnd  []bool
	callPanicked string
}

func runMulti(c *Case, base int, can *canary, leaked map[string]bool, leakedSelect int) (*obs, error) {
	o := &obs{parkedAt: -1, mu: &multiObs{}}
	mo := o.mu
	bg := context.Background()
	svc, err := advanced.New(bg, advanced.WithLogLevel(zerolog.Disabled))
	if err != nil {
		return nil, err
	}
	ctx, cancelCtx := context.WithCancel(bg)
	defer cancelCtx()
	can.reset()
	names := c.Multi.Names
	recs := make([]*recorder, len(names))
	t0 := time.Now()
	o.ticks = []time.Duration{us(c.TicksUs[0])}
	at := t0.Add(o.ticks[0])
	for i, n := range names {
		recs[i] = &recorder{t0: t0, dur: us(c.JobDurUs)}
		if err := svc.ScheduleJob(ctx, "c02", n, at, recs[i].job); err != nil {
			return nil, fmt.Errorf("schedule %q: %w", n, err)
		}
	}
	if c.Mode != "M1" {
		// all job goroutines parked in their select
		for i := 0; i < 25; i++ {
			cnt := 0
			for _, g := range schedGoroutines() {
				if g.state == "select" {
					cnt++
				}
			}
			if cnt >= leakedSelect+len(names) {
				mo.parked = true
				break
			}
			time.Sleep(200 * time.Microsecond)
		}
	}
	func() {
		wd := time.AfterFunc(stuckAfter, func() { callWatchdog("canceljobs") })
		defer wd.Stop()
		defer func() {
			if p := recover(); p != nil {
				mo.callPanicked = fmt.Sprint(p)
			}
		}()
		svc.CancelJobs(bg, c.Multi.Prefix)
	}()
	mo.callEnd = time.Since(t0)
	listed := map[string]bool{}
	for _, n := range svc.ListJobs(bg) {
		listed[n] = true
	}
	for _, n := range names {
		mo.existsAfter = append(mo.existsAfter, svc.JobExists(bg, n))
		mo.listedAfter = append(mo.listedAfter, listed[n])
	}
	// every job that is still alive is due by runtime+margin
	end := at.Add(margin)
	allCancelled := true
	for _, n := range names {
		if !strings.HasPrefix(n, c.Multi.Prefix) {
			allCancelled = false
		}
	}
	progress := func() [3]int {
		r, cur := 0, 0
		for _, rc := range recs {
			rc.mu.Lock()
			r += len(rc.runs)
			cur += rc.cur
			rc.mu.Unlock()
		}
		return [3]int{0, r, cur}
	}
	var stuck *schedGoroutine
	o.settled, stuck = settle(base, end, can, leaked, progress)
	if stuck != nil {
		o.stuck, o.stuckDump = stuck.state, stuck.text
	}
	if stuck == nil && o.settled && allCancelled {
		// nothing should be left; look again when the runtime is clearly over
		if d := time.Until(end); d > 0 {
			time.Sleep(d)
			o.settled = waitGoroutines(base, settleCeiling)
		}
	}
	for i, n := range names {
		rs, _ := recs[i].snapshot()
		mo.runs = append(mo.runs, len(rs))
		mo.existsAtEnd = append(mo.existsAtEnd, svc.JobExists(bg, n))
		for _, r := range rs {
			if r.end < 0 || r.end-r.start > us(c.JobDurUs)+perturbedGap {
				o.perturbed = true
			}
		}
	}
	if can.gap() > perturbedGap {
		o.perturbed = true
	}
	return o, nil
}

func judgeMulti(c *Case, o *obs) []verdict {
	mo := o.mu
	var vs []verdict
	if mo.callPanicked != "" {
		return append(vs, verdict{"panic:canceljobs", "CancelJobs panicked: " + mo.callPanicked})
	}
	if !o.settled || o.stuck != "" {
		return vs
	}
	what := fmt.Sprintf("jobs %q due at %v, CancelJobs(%q) returned at %v; JobExists after the call %v, runs %v, JobExists at the end %v", c.Multi.Names, o.ticks[0], c.Multi.Prefix, mo.callEnd, mo.existsAfter, mo.runs, mo.existsAtEnd)
	clearly := mo.callEnd+margin <= o.ticks[0] && !o.perturbed && (c.Mode == "M1" || mo.parked)
	for i, n := range c.Multi.Names {
		if strings.HasPrefix(n, c.Multi.Prefix) {
			if mo.existsAfter[i] || mo.listedAfter[i] {
				vs = append(vs, verdict{"canceljobs-matching-job-still-listed", fmt.Sprintf("job %q has the prefix and is still listed after CancelJobs: %s", n, what)})
			} else if clearly && mo.runs[i] > 0 {
				vs = append(vs, verdict{"canceljobs-matching-job-ran", fmt.Sprintf("job %q has the prefix, was cancelled clearly before its time, and ran: %s", n, what)})
			}
			continue
		}
		pendingThen := mo.callEnd+margin <= o.ticks[0]
		if pendingThen && (!mo.existsAfter[i] || !mo.listedAfter[i]) {
			vs = append(vs, verdict{"canceljobs-other-job-removed", fmt.Sprintf("job %q does not have the prefix and is no longer listed after CancelJobs: %s", n, what)})
		}
		if mo.runs[i] != 1 {
			vs = append(vs, verdict{"canceljobs-other-job-not-run-once", fmt.Sprintf("job %q does not have the prefix and ran %d times: %s", n, mo.runs[i], what)})
		}
		if mo.existsAtEnd[i] {
			vs = append(vs, verdict{"name-still-listed-after-finish", fmt.Sprintf("job %q is still listed after it finished: %s", n, what)})
		}
	}
	if len(vs) > 1 {
		vs = vs[:1]
	}
	return vs
}

// ---------------------------------------------------------------------------
// Per: two further periodic programs.
//
//	hold       the first instance (due +15 ms) is started early with RunJob at about
//	           +3 ms and its job function is held until +25 ms, i.e. past the instance's
//	           own time; the next instance is due at +60 ms, then there are no more.
//	           Nothing is due when the held run ends, so nothing may run then.
//	failfirst  the runtime function fails on its very first call (plain error or
//	           ErrNoMoreInstances); afterwards the job table must match the model: the
//	           name is not listed, RunJob does not claim anything, the name can be
//	           scheduled again and that job runs once.

// Per is the program shape described above.
type Per struct {
	Variant string `json:"variant"`       // hold | failfirst
	Err     string `json:"err,omitempty"` // failfirst: plain | nomore
}

func genPer(t *rapid.T, c *Case) {
	c.Per = &Per{Variant: rapid.SampledFrom([]string{"failfirst", "hold", "failfirst", "hold"}).Draw(t, "perVariant")}
	if c.Per.Variant == "failfirst" {
		c.Per.Err = rapid.SampledFrom([]string{"plain", "nomore", "plain"}).Draw(t, "perErr")
	}
	c.Periodic = true
	c.TicksUs = []int64{15000}
	c.PeriodUs, c.HorizonUs = 0, 0
	c.Ops, c.Resched, c.Recycle = nil, false, nil
	c.Reps = (reps() + 1) / 2
}

type perObs struct {
	schedErr   error
	runErr     error
	runAt      time.Duration
	probeErr   error
	probeRuns  int
	exists     bool
	listed     bool
	reschedErr error
	reschedN   int
}

func runPer(c *Case, base int, can *canary, leaked map[string]bool, leakedSelect int) (*obs, error) {
	o := &obs{parkedAt: -1, per: &perObs{}}
	po := o.per
	bg := context.Background()
	svc, err := advanced.New(bg, advanced.WithLogLevel(zerolog.Disabled))
	if err != nil {
		return nil, err
	}
	ctx, cancelCtx := context.WithCancel(bg)
	defer cancelCtx()
	can.reset()
	t0 := time.Now()
	rec := &recorder{t0: t0}
	var hmu sync.Mutex
	asked := 0
	instances := []time.Duration{15 * time.Millisecond, 60 * time.Millisecond}
	runtimeFunc := func(context.Context) (time.Time, error) {
		hmu.Lock()
		defer hmu.Unlock()
		asked++
		now := time.Since(t0)
		if c.Per.Variant == "failfirst" {
			o.exhausted = true
			if c.Per.Err == "nomore" {
				return time.Time{}, scheduler.ErrNoMoreInstances
			}
			return time.Time{}, errors.New("scripted runtime function error")
		}
		// the next instance that is still ahead
		for _, v := range instances {
			if v > now {
				o.handouts = append(o.handouts, now)
				o.handVals = append(o.handVals, v)
				return t0.Add(v), nil
			}
		}
		o.exhausted = true
		return time.Time{}, scheduler.ErrNoMoreInstances
	}
	held := false
	job := func(ctx context.Context) {
		hmu.Lock()
		first := !held
		held = true
		hmu.Unlock()
		if first && c.Per.Variant == "hold" {
			// harness-held: this run outlasts the instance's own time (+15 ms)
			s := time.Since(t0)
			rec.mu.Lock()
			rec.cur++
			if rec.cur > rec.maxConc {
				rec.maxConc = rec.cur
			}
			idx := len(rec.runs)
			rec.runs = append(rec.runs, span{start: s, end: -1})
			rec.mu.Unlock()
			if d := time.Until(t0.Add(25 * time.Millisecond)); d > 0 {
				time.Sleep(d)
			}
			rec.mu.Lock()
			rec.cur--
			rec.runs[idx].end = time.Since(t0)
			rec.mu.Unlock()
			return
		}
		rec.job(ctx)
	}
	po.schedErr = svc.SchedulePeriodicJob(ctx, "c02", jobName, runtimeFunc, job)
	end := t0
	if c.Per.Variant == "hold" && po.schedErr == nil {
		time.Sleep(3 * time.Millisecond)
		po.runAt = time.Since(t0)
		o.ops = make([]opRes, 1)
		o.ops[0].kind = "run"
		callOp(svc, cancelCtx, "run", "", t0, &o.ops[0])
		po.runErr = o.ops[0].err
		end = t0.Add(60 * time.Millisecond)
	}
	progress := func() [3]int {
		hmu.Lock()
		h := asked
		hmu.Unlock()
		rec.mu.Lock()
		defer rec.mu.Unlock()
		return [3]int{h, len(rec.runs), rec.cur}
	}
	var stuck *schedGoroutine
	o.settled, stuck = settle(base, end, can, leaked, progress)
	o.runs, o.maxConc = rec.snapshot()
	if stuck != nil {
		o.stuck, o.stuckDump = stuck.state, stuck.text
		return o, nil
	}
	if !o.settled {
		return o, nil
	}
	// the job has finished: the table against the model
	po.exists = svc.JobExists(bg, jobName)
	for _, n := range svc.ListJobs(bg) {
		if n == jobName {
			po.listed = true
		}
	}
	if c.Per.Variant == "failfirst" {
		before := len(o.runs)
		var pr opRes
		callOp(svc, cancelCtx, "run", "", t0, &pr)
		po.probeErr = pr.err
		if pr.err == nil {
			time.Sleep(2 * time.Millisecond)
			waitGoroutines(base, 200*time.Millisecond)
		}
		rs, _ := rec.snapshot()
		po.probeRuns = len(rs) - before
		rec2 := &recorder{t0: time.Now()}
		po.reschedErr = svc.ScheduleJob(bg, "c02", jobName, time.Now().Add(300*time.Microsecond), rec2.job)
		if po.reschedErr == nil {
			o.settled = waitGoroutines(base, settleCeiling)
			r2, _ := rec2.snapshot()
			po.reschedN = len(r2)
		}
	}
	return o, nil
}

// earlyRuns counts the runs that began clearly before the runtime most recently
// handed out by the runtime function: a timer never fires early, so each of them
// needs an early-run request of its own.
func earlyRuns(o *obs) int {
	n := 0
	for _, r := range o.runs {
		for i := len(o.handouts) - 1; i >= 0; i-- {
			if o.handouts[i] <= r.start {
				if r.start+time.Millisecond < o.handVals[i] {
					n++
				}
				break
			}
		}
	}
	return n
}

func judgePer(c *Case, o *obs) []verdict {
	vs := judgeCommon(c, o)
	po := o.per
	if !o.settled {
		return vs
	}
	what := fmt.Sprintf("SchedulePeriodicJob returned %v; %s", po.schedErr, describe(o))
	switch c.Per.Variant {
	case "hold":
		if po.schedErr != nil {
			return vs
		}
		if o.maxConc > 1 {
			vs = append(vs, verdict{"periodic-overlap", "periodic job function ran concurrently with itself: " + what})
		}
		ok := 0
		if po.runErr == nil {
			ok = 1
		}
		if e := earlyRuns(o); e > ok {
			vs = append(vs, verdict{"periodic-ran-with-nothing-due", fmt.Sprintf("%d runs began before the runtime the job was waiting for, with %d successful early-run requests: %s", e, ok, what)})
		}
		if ok == 1 && len(o.runs) == 0 {
			vs = append(vs, verdict{"periodic-early-run-dropped", "RunJob returned nil and the job never ran: " + what})
		}
		if po.exists || po.listed {
			vs = append(vs, verdict{"name-still-listed-after-finish", fmt.Sprintf("after the job finished JobExists=%v listed=%v: %s", po.exists, po.listed, what)})
		}
	case "failfirst":
		model := fmt.Sprintf("runtime function failed on its first call (%s); afterwards JobExists=%v listed=%v, RunJob returned %v and %d runs followed, scheduling the name again returned %v and that job ran %d times; %s", c.Per.Err, po.exists, po.listed, po.probeErr, po.probeRuns, po.reschedErr, po.reschedN, what)
		if len(o.runs)-po.probeRuns > 0 {
			vs = append(vs, verdict{"periodic-ran-with-nothing-due", "the job ran although its runtime function never gave a runtime: " + model})
		}
		if po.exists || po.listed {
			vs = append(vs, verdict{"name-still-listed-after-finish", "a periodic job that ended at its first runtime request is still listed: " + model})
		}
		if po.probeErr == nil && po.probeRuns == 0 {
			vs = append(vs, verdict{"periodic-early-run-dropped", "RunJob returned nil for a job that has ended, and nothing ran: " + model})
		}
		if po.reschedErr != nil {
			vs = append(vs, verdict{"name-not-reusable", "scheduling the ended job's name again failed: " + model})
		} else if po.reschedN != 1 {
			vs = append(vs, verdict{"rescheduled-job-not-run-once", "the job scheduled again under the same name did not run once: " + model})
		}
	}
	return vs
}
