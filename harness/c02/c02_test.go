// Package c02 decides property C02: a scheduled job runs exactly once, whoever
// starts it.  Subject: the real services/scheduler/advanced, driven through its
// exported API only (no source hook).
//
// The generated unit is a *program*: job kind, runtime(s), a list of operations
// (run-now, cancel, parent-context cancel) with their instants and
// multiplicities, and the way it is executed:
//
//	M1 "both ready"      GOMAXPROCS(1); the job is scheduled and the operations are
//	                     issued by the same goroutine without yielding, so the job
//	                     goroutine evaluates its select for the first time with every
//	                     signal (and, for a runtime in the past, the timer) ready.
//	M2 "boundary stress" all cores; every operation is released by a goroutine that
//	                     sleeps and then spins until runtime+δ.
//
// A program is executed Reps times; every repetition is judged against the
// scheduler contract of the property statement (see judgeOneOff/judgePeriodic).
package c02

import (
	"bytes"
	"context"
	"encoding/json"
	"errors"
	"fmt"
	"os"
	"runtime"
	"sort"
	"strings"
	"sync"
	"sync/atomic"
	"testing"
	"time"
	"verifharness/internal/fakes"

	"github.com/attestantio/vouch/services/scheduler"
	"github.com/attestantio/vouch/services/scheduler/advanced"
	"github.com/rs/zerolog"
	"pgregory.net/rapid"

	"verifharness/internal/ev"
)

const (
	// margin is the guard band for every "clearly before" judgement.
	margin = 20 * time.Millisecond
	// perturbedGap: if the canary goroutine (sleeping 200µs at a time) observes a
	// gap larger than this, or an operation is released this much late, the
	// repetition's timing clauses are not judged.
	perturbedGap = 5 * time.Millisecond
	// settleCeiling bounds the wait for the scheduler's goroutines to finish.
	settleCeiling = 10 * time.Second
	// stuckAfter: once everything the program can cause is overdue by this much and
	// the goroutine count is still up, the goroutine dump is consulted (see settle).
	stuckAfter   = 2 * time.Second
	stuckConfirm = 400 * time.Millisecond
	jobName      = "c02 job"
)

// Op is one operation of a program.
type Op struct {
	Kind string `json:"kind"` // run | runif | cancel | cancelif | ctxcancel
	// Tick: the offset is relative to the runtime TicksUs[0]+Tick*PeriodUs.
	Tick int `json:"tick,omitempty"`
	// OffUs: M2 only, release instant relative to that runtime in microseconds.
	// In M1 operations are issued inline in list order.
	OffUs int64 `json:"off_us,omitempty"`
	// Mult: number of callers (M2: concurrent, released together; M1: sequential).
	Mult int `json:"mult"`
	// Ctx: the context the caller passes to the scheduler call (it is the caller's
	// own, not the job's): "" live, "cancelled" already cancelled, "cancel-soon"
	// cancelled about 30µs after the call begins.
	Ctx string `json:"ctx,omitempty"`
}

// Recycle: the program cancels the job and immediately schedules the same name
// again (a one-off job due NewOffUs later), then follows the NEW job.
type Recycle struct {
	// AtUs: M2, one-off: how long after scheduling the cancel is issued.  M1: the
	// cancel and the new schedule follow the first schedule without yielding.  A
	// periodic job is always cancelled while an instance of it is in progress.
	AtUs     int64 `json:"at_us,omitempty"`
	NewOffUs int64 `json:"new_off_us"`
	// Follow: what happens to the new job while it is pending: "timer" (nothing),
	// "run" (RunJob), "cancel" (CancelJob).
	Follow string `json:"follow"`
	// OldDue (one-off old job only): "" the old job is cancelled clearly before
	// its runtime; "timer" the cancel lands on the old job's runtime (so the old
	// job's timer may win against the cancel signal); "ctx" the old job's parent
	// context is cancelled right after the name has been scheduled again (so the
	// old job goroutine may see that instead of the cancel signal).
	OldDue string `json:"old_due,omitempty"`
	// OldEnd (periodic old job only): how the old incarnation ends after the
	// instance that was in progress at the cancel: "" through the cancel signal;
	// "nomore" / "error": its runtime function answers ErrNoMoreInstances / another
	// error at its next call (the loop asks before it looks at the cancel signal);
	// "ctx": its parent context is cancelled right after the name has been scheduled
	// again (the select then has both the context and the cancel signal ready).
	OldEnd string `json:"old_end,omitempty"`
	// NewPeriodic: the job scheduled under the name is periodic (first runtime
	// NewOffUs later, then every 3 ms for 10 ms).
	NewPeriodic bool `json:"new_periodic,omitempty"`
}

// Case is a program.
type Case struct {
	Mode string `json:"mode"` // M1 | M2
	// SyncTimer selects the timer-channel semantics of the Go runtime for this
	// program: true = GODEBUG asynctimerchan=0 (the default for modules declaring
	// go >= 1.23: a due timer is seen as ready by a select that has not blocked
	// yet), false = asynctimerchan=1 (what vouch's go.mod, go 1.22.7, selects).
	SyncTimer bool `json:"sync_timer"`
	Periodic  bool `json:"periodic"`
	// TicksUs: runtime(s) in microseconds relative to the instant of scheduling
	// (negative = already due).  One-off jobs have exactly one entry.  A periodic
	// job's runtimeFunc hands these out first, in order, whatever the time; after
	// that it behaves like vouch's own runtime functions: it returns the next point
	// of the grid TicksUs[0]+k*PeriodUs that lies after "now", and
	// ErrNoMoreInstances once "now" has reached HorizonUs (or at once if PeriodUs
	// is 0).
	TicksUs   []int64 `json:"ticks_us"`
	PeriodUs  int64   `json:"period_us,omitempty"`
	HorizonUs int64   `json:"horizon_us,omitempty"`
	JobDurUs  int64   `json:"job_dur_us"`
	Ops       []Op    `json:"ops"`
	// Resched: after the job is finished, schedule the same name again.
	Resched bool     `json:"resched"`
	Recycle *Recycle `json:"recycle,omitempty"`
	// Far, Dup: further program shapes, see shapes_test.go.
	Far   *Far   `json:"far,omitempty"`
	Dup   *Dup   `json:"dup,omitempty"`
	Multi *Multi `json:"multi,omitempty"`
	Per   *Per   `json:"per,omitempty"`
	Reps  int    `json:"reps"`
}

func mustJSON(v any) []byte {
	b, _ := json.Marshal(v)
	return b
}

func at0(t0 time.Time, d time.Duration) time.Time { return t0.Add(d) }

func us(v int64) time.Duration { return time.Duration(v) * time.Microsecond }

// ---------------------------------------------------------------------------
// generator

func reps() int {
	if ev.Tier() == "thorough" {
		return 100
	}
	return 40
}

var (
	runKinds = []string{"run", "run", "run", "runif", "runif", "cancel", "cancel", "cancelif", "ctxcancel"}
	// δ grid (µs) around the runtime for M2.
	deltaGrid = []int64{-2000, -500, -200, -100, -50, -20, 0, 0, 20, 50, 100, 200, 300, 500, 1000, 2000}
)

func genOps(t *rapid.T, c *Case, nAnchor int, clearBefore bool) {
	n := rapid.IntRange(1, 3).Draw(t, "nOps")
	for i := 0; i < n; i++ {
		op := Op{Kind: rapid.SampledFrom(runKinds).Draw(t, "kind"), Mult: 1}
		switch op.Kind {
		case "run", "runif":
			op.Mult = rapid.SampledFrom([]int{1, 1, 1, 2, 3, 8}).Draw(t, "mult")
		case "cancel", "cancelif":
			op.Mult = rapid.SampledFrom([]int{1, 1, 2, 4}).Draw(t, "mult")
		}
		if op.Kind != "ctxcancel" {
			op.Ctx = rapid.SampledFrom([]string{"", "", "", "", "cancelled", "cancelled", "cancel-soon"}).Draw(t, "callerCtx")
		}
		if c.Mode == "M2" {
			op.Tick = rapid.IntRange(0, nAnchor-1).Draw(t, "tick")
			op.OffUs = rapid.SampledFrom(deltaGrid).Draw(t, "delta")
			if clearBefore && (op.Kind == "cancel" || op.Kind == "cancelif" || op.Kind == "ctxcancel") && rapid.IntRange(0, 3).Draw(t, "clearlyBefore") > 0 {
				op.Tick = 0
				op.OffUs = -25000
			}
		}
		c.Ops = append(c.Ops, op)
	}
}

func genCase(t *rapid.T, mode string) Case {
	c := Case{Mode: mode, Reps: reps()}
	c.Periodic = rapid.IntRange(0, 9).Draw(t, "periodic") < 3
	c.JobDurUs = rapid.SampledFrom([]int64{0, 0, 0, 100, 500, 1500}).Draw(t, "jobDur")
	c.Resched = rapid.Bool().Draw(t, "resched")
	switch rapid.SampledFrom([]string{"", "", "", "", "", "", "far", "per", "dup", "multi", "per", "", "", "", ""}).Draw(t, "shape") {
	case "per":
		genPer(t, &c)
		return c
	case "multi":
		genMulti(t, &c)
		c.SyncTimer = rapid.Bool().Draw(t, "syncTimer")
		return c
	case "far":
		genFar(t, &c)
		c.SyncTimer = rapid.Bool().Draw(t, "syncTimer")
		return c
	case "dup":
		if mode == "M2" {
			genDup(t, &c)
			c.SyncTimer = rapid.Bool().Draw(t, "syncTimer")
			return c
		}
	}
	if rapid.SampledFrom([]bool{false, false, false, false, true, false, false}).Draw(t, "recycle") {
		// cancel + immediate re-use of the name; the old job is either a one-off job
		// that is pending with its runtime clearly ahead, or a periodic job with an
		// instance in progress
		c.Resched = false
		c.Reps = (reps() + 1) / 2
		c.SyncTimer = rapid.Bool().Draw(t, "syncTimer")
		c.Recycle = &Recycle{NewOffUs: 45000, Follow: rapid.SampledFrom([]string{"timer", "run", "cancel"}).Draw(t, "follow")}
		if c.Periodic {
			c.TicksUs = []int64{rapid.SampledFrom([]int64{-1000, 0, 1000}).Draw(t, "first")}
			c.PeriodUs = 3000
			c.HorizonUs = 400000
			c.JobDurUs = rapid.SampledFrom([]int64{1500, 3000}).Draw(t, "jobDur")
			c.Recycle.OldEnd = rapid.SampledFrom([]string{"", "nomore", "error", "ctx"}).Draw(t, "oldEnd")
			c.Recycle.NewPeriodic = rapid.Bool().Draw(t, "newPeriodic")
		} else {
			c.TicksUs = []int64{50000}
			if mode == "M2" {
				c.Recycle.AtUs = rapid.SampledFrom([]int64{0, 50, 500, 2000}).Draw(t, "at")
			}
			switch rapid.SampledFrom([]string{"", "", "", "timer", "ctx"}).Draw(t, "oldDue") {
			case "timer":
				c.Recycle.OldDue = "timer"
				if mode == "M1" {
					c.TicksUs = []int64{rapid.SampledFrom([]int64{-1000, 0}).Draw(t, "oldFirst")}
				} else {
					c.Recycle.AtUs = rapid.SampledFrom([]int64{1000, 2000}).Draw(t, "oldAt")
					c.TicksUs = []int64{c.Recycle.AtUs}
				}
			case "ctx":
				c.Recycle.OldDue = "ctx"
			}
		}
		return c
	}
	if !c.Periodic && rapid.SampledFrom([]bool{false, false, false, false, false, true, false, false, false, false}).Draw(t, "runVsCancel") {
		// RunJob and CancelJob released together right after ScheduleJob (M1: one after
		// the other without yielding)
		first := rapid.SampledFrom([]int64{3000, 30000}).Draw(t, "first")
		c.TicksUs = []int64{first}
		c.SyncTimer = rapid.Bool().Draw(t, "syncTimer")
		c.Ops = []Op{
			{Kind: "run", Mult: 1, OffUs: -first - 1000},
			{Kind: "cancel", Mult: rapid.IntRange(1, 3).Draw(t, "cancels"), OffUs: -first - 1000},
		}
		if rapid.Bool().Draw(t, "cancelFirst") {
			c.Ops[0], c.Ops[1] = c.Ops[1], c.Ops[0]
		}
		return c
	}
	if mode == "M1" {
		c.SyncTimer = rapid.IntRange(0, 9).Draw(t, "syncTimer") < 8
		first := rapid.SampledFrom([]int64{-1000000, -1000, -1, 0, 0, 30000}).Draw(t, "first")
		c.TicksUs = []int64{first}
		if c.Periodic {
			// further runtimes that are already due (they pile up), then optionally
			// a grid that goes on until clearly after the operations.
			nPast := rapid.IntRange(0, 2).Draw(t, "nPast")
			for i := 0; i < nPast && first < 0; i++ {
				c.TicksUs = append(c.TicksUs, c.TicksUs[len(c.TicksUs)-1]/2)
			}
			if rapid.Bool().Draw(t, "grid") || first > 0 {
				c.PeriodUs = 3000
				c.HorizonUs = 22000 + 2*c.PeriodUs
				if first > 0 {
					c.HorizonUs += first
				}
			}
		}
		genOps(t, &c, 1, false)
		return c
	}
	c.SyncTimer = rapid.IntRange(0, 9).Draw(t, "syncTimer") < 2
	if !c.Periodic {
		first := rapid.SampledFrom([]int64{-1000, 0, 1000, 3000, 3000, 5000, 30000, 30000}).Draw(t, "first")
		c.TicksUs = []int64{first}
		genOps(t, &c, 1, first >= 30000)
		return c
	}
	first := rapid.SampledFrom([]int64{0, 2000, 5000, 30000}).Draw(t, "first")
	c.TicksUs = []int64{first}
	c.PeriodUs = rapid.SampledFrom([]int64{2000, 3000, 5000}).Draw(t, "period")
	nAnchor := rapid.IntRange(1, 4).Draw(t, "nAnchor")
	genOps(t, &c, nAnchor, first >= 30000)
	// the grid goes on until clearly after the last operation
	last := first
	for _, op := range c.Ops {
		if v := first + int64(op.Tick)*c.PeriodUs + op.OffUs; v > last {
			last = v
		}
	}
	c.HorizonUs = last + 25000 + 2*c.PeriodUs
	return c
}

// sanitise makes a loaded (replayed, hand-edited) case executable.
func sanitise(c *Case) {
	if c.Mode != "M1" {
		c.Mode = "M2"
	}
	if len(c.TicksUs) == 0 {
		c.TicksUs = []int64{0}
	}
	if !c.Periodic {
		c.TicksUs = c.TicksUs[:1]
	}
	if c.Reps < 1 {
		c.Reps = 1
	}
	if !c.Periodic || c.PeriodUs <= 0 {
		c.PeriodUs, c.HorizonUs = 0, 0
	}
	if c.PeriodUs > 0 && c.PeriodUs < 500 {
		c.PeriodUs = 500
	}
	if c.HorizonUs > 2000000 {
		c.HorizonUs = 2000000
	}
	if c.Per != nil {
		c.Multi, c.Far, c.Dup, c.Recycle, c.Ops, c.Resched, c.Periodic, c.SyncTimer = nil, nil, nil, nil, nil, false, true, false
		c.TicksUs, c.PeriodUs, c.HorizonUs = []int64{15000}, 0, 0
	}
	if c.Multi != nil {
		c.Far, c.Dup, c.Recycle, c.Ops, c.Resched, c.Periodic = nil, nil, nil, nil, false, false
		seen := map[string]bool{}
		var ns []string
		for _, n := range c.Multi.Names {
			if n != "" && !seen[n] {
				seen[n] = true
				ns = append(ns, n)
			}
		}
		if len(ns) == 0 {
			ns = []string{"Other job"}
		}
		c.Multi.Names = ns
		c.TicksUs = []int64{40000}
	}
	if c.Far != nil {
		c.Dup, c.Recycle, c.Ops = nil, nil, nil
		c.PeriodUs, c.HorizonUs = 0, 0
	}
	if c.Dup != nil {
		c.Recycle, c.Ops, c.Resched, c.Mode = nil, nil, false, "M2"
		if c.Dup.Mult < 2 {
			c.Dup.Mult = 2
		}
		if c.Dup.Mult > 64 {
			c.Dup.Mult = 64
		}
		c.TicksUs = []int64{30000}
		if c.Periodic {
			c.PeriodUs, c.HorizonUs, c.Dup.Follow = 3000, 40000, "cancel"
		}
	}
	if c.Recycle != nil {
		c.Ops, c.Resched = nil, false
		if c.Recycle.NewOffUs < 45000 {
			c.Recycle.NewOffUs = 45000
		}
		if c.Periodic && (c.PeriodUs <= 0 || c.HorizonUs < 400000) {
			c.PeriodUs, c.HorizonUs = 3000, 400000
		}
		if c.Periodic && c.JobDurUs < 1000 {
			c.JobDurUs = 1000
		}
		if c.Periodic {
			c.Recycle.OldDue = ""
		} else {
			c.Recycle.OldEnd, c.Recycle.NewPeriodic = "", false
		}
		if !c.Periodic && c.Recycle.OldDue != "timer" && c.TicksUs[0] < 50000 {
			c.TicksUs[0] = 50000
		}
	}
	for i := range c.Ops {
		if c.Ops[i].Mult < 1 {
			c.Ops[i].Mult = 1
		}
		if c.Ops[i].Tick < 0 || c.Ops[i].Tick > 64 || !c.Periodic {
			c.Ops[i].Tick = 0
		}
	}
}

// ---------------------------------------------------------------------------
// execution of one repetition

type span struct{ start, end time.Duration }

type opRes struct {
	kind       string
	planned    time.Duration // M2: planned release instant
	start, end time.Duration
	err        error
	hasErr     bool // the call reports an error value (run, cancel)
	panicked   string
	returned   bool
}

type obs struct {
	runs       []span
	maxConc    int
	ops        []opRes
	ticks      []time.Duration // runtimes relative to t0
	handouts   []time.Duration // instants at which runtimeFunc handed out a runtime
	handVals   []time.Duration // the runtimes it handed out
	exhausted  bool            // runtimeFunc returned ErrNoMoreInstances
	settled    bool
	exists     bool
	listed     bool
	reschedErr error
	reschedN   int
	reschedOK  bool // resched was attempted and settled
	perturbed  bool
	hung       string
	// stuck: set when the scheduler's own job goroutine of this repetition was found
	// parked on a channel operation inside scheduler code, with everything overdue
	// by seconds, twice in a row without any progress in between, while the process
	// itself was being scheduled normally.  stuckDump is that goroutine's stack.
	stuck      string
	stuckDump  string
	stuckProbe string
	rc         *recycleObs
	sh         *shapeObs
	mu         *multiObs
	per        *perObs
	// parkedAt: M2 with a runtime at least 20ms ahead: the instant at which the
	// job goroutine was seen blocked in its select (-1: not seen).
	parkedAt time.Duration
}

// recycleObs: what was seen of the job scheduled under the cancelled job's name.
type recycleObs struct {
	skipped    string // why the recycle step could not be performed as planned
	cancelErr  error
	schedErr   error
	newRuntime time.Duration
	// pending-state checks, made at checkAt
	checkAt        time.Duration
	exists, listed bool
	dupErr         error
	// follow-up call (run | cancel)
	followErr        error
	followStart      time.Duration
	followEnd        time.Duration
	parkedBefore     bool // the new job's goroutine was seen parked before a follow-up cancel
	runs             []span
	settledAfterward bool
}

type recorder struct {
	mu      sync.Mutex
	t0      time.Time
	runs    []span
	cur     int
	maxConc int
	dur     time.Duration
}

func (r *recorder) job(context.Context) {
	s := time.Since(r.t0)
	r.mu.Lock()
	r.cur++
	if r.cur > r.maxConc {
		r.maxConc = r.cur
	}
	idx := len(r.runs)
	r.runs = append(r.runs, span{start: s, end: -1})
	r.mu.Unlock()
	if r.dur > 0 {
		time.Sleep(r.dur)
	}
	e := time.Since(r.t0)
	r.mu.Lock()
	r.cur--
	r.runs[idx].end = e
	r.mu.Unlock()
}

func (r *recorder) snapshot() ([]span, int) {
	r.mu.Lock()
	defer r.mu.Unlock()
	return append([]span(nil), r.runs...), r.maxConc
}

// canary measures how late this process' goroutines are woken.
type canary struct {
	mu     sync.Mutex
	maxGap time.Duration
	stop   chan struct{}
	done   chan struct{}
}

func startCanary() *canary {
	c := &canary{stop: make(chan struct{}), done: make(chan struct{})}
	go func() {
		defer close(c.done)
		last := time.Now()
		for {
			select {
			case <-c.stop:
				return
			default:
			}
			time.Sleep(200 * time.Microsecond)
			now := time.Now()
			if g := now.Sub(last); g > 0 {
				c.mu.Lock()
				if g > c.maxGap {
					c.maxGap = g
				}
				c.mu.Unlock()
			}
			last = now
		}
	}()
	return c
}

func (c *canary) reset() {
	c.mu.Lock()
	c.maxGap = 0
	c.mu.Unlock()
}

func (c *canary) raise(g time.Duration) {
	c.mu.Lock()
	if g > c.maxGap {
		c.maxGap = g
	}
	c.mu.Unlock()
}

func (c *canary) gap() time.Duration {
	c.mu.Lock()
	defer c.mu.Unlock()
	return c.maxGap
}

func (c *canary) close() {
	close(c.stop)
	<-c.done
}

// waitGoroutines waits until the goroutine count is back at base for two
// consecutive polls.
func waitGoroutines(base int, ceiling time.Duration) bool {
	deadline := time.Now().Add(ceiling)
	ok := 0
	for {
		if runtime.NumGoroutine() <= base {
			ok++
			if ok >= 2 {
				// confirm with a consistent (stop-the-world) count: NumGoroutine can be transiently too low
				if fakes.GoroutineCount() <= base {
					return true
				}
				ok = 0
			}
		} else {
			ok = 0
		}
		if time.Now().After(deadline) {
			return false
		}
		time.Sleep(30 * time.Microsecond)
	}
}

// settle waits until the goroutine count is back at base (the scheduler's job
// goroutine and the lock watchdogs of this repetition are gone).  If that has not
// happened stuckAfter after the instant by which everything the program can
// cause is due (overdueFrom), the goroutine dump is consulted: a job goroutine of
// the scheduler (other than those in leaked) that is parked on a channel
// operation inside scheduler code, is found in the same state again
// stuckConfirm later with no runtime asked for and no run started or in progress
// in between, while the canary shows that this process was being scheduled
// normally, is reported as stuck.  Anything else (nothing of the scheduler parked:
// a stalled machine, a harness goroutine) keeps waiting until the ceiling.
func settle(base int, overdueFrom time.Time, can *canary, leaked map[string]bool, progress func() [3]int) (bool, *schedGoroutine) {
	start := time.Now()
	if overdueFrom.Before(start) {
		overdueFrom = start
	}
	deadline := overdueFrom.Add(settleCeiling)
	nextDiag := overdueFrom.Add(stuckAfter)
	ok := 0
	for {
		if runtime.NumGoroutine() <= base {
			ok++
			if ok >= 2 {
				if fakes.GoroutineCount() <= base {
					return true, nil
				}
				ok = 0
			}
		} else {
			ok = 0
		}
		now := time.Now()
		if now.After(deadline) {
			return false, nil
		}
		if now.After(nextDiag) {
			b1 := stuckBlocked(schedGoroutines())
			for id := range b1 {
				if leaked[id] {
					delete(b1, id)
				}
			}
			if len(b1) > 0 {
				p1 := progress()
				g0 := can.gap()
				can.reset()
				time.Sleep(stuckConfirm)
				b2 := stuckBlocked(schedGoroutines())
				p2 := progress()
				calm := can.gap() < 50*time.Millisecond
				can.raise(g0)
				if calm && p1 == p2 && p1[2] == 0 {
					for id, g := range b1 {
						if g2, ok := b2[id]; ok && g2.state == g.state {
							return false, &g2
						}
					}
				}
			}
			nextDiag = time.Now().Add(time.Second)
		}
		if now.Sub(overdueFrom) > 100*time.Millisecond {
			time.Sleep(500 * time.Microsecond)
		} else {
			time.Sleep(30 * time.Microsecond)
		}
	}
}

// schedGoroutine is one goroutine of the scheduler's ScheduleJob /
// SchedulePeriodicJob (its job goroutine), as found in the runtime's goroutine
// dump.  Only the dump is read (no source hook); if the dump does not look as
// expected nothing is found and the clauses that need it are not judged.
type schedGoroutine struct {
	id    string
	state string // select | chan receive | chan send | sleep | running | ...
	// inScheduler: the innermost frame is scheduler code (not the job function or
	// the runtime function of the harness, not a lock).
	inScheduler bool
	text        string
}

const schedPkg = "services/scheduler/advanced."

func schedGoroutines() []schedGoroutine {
	buf := make([]byte, 1<<18)
	n := runtime.Stack(buf, true)
	var res []schedGoroutine
	for _, g := range bytes.Split(buf[:n], []byte("\n\n")) {
		nl := bytes.IndexByte(g, '\n')
		if nl < 0 || !bytes.HasPrefix(g, []byte("goroutine ")) {
			continue
		}
		head, body := g[:nl], g[nl+1:]
		// the frames of the goroutine itself come before its "created by" line
		own := body
		if i := bytes.Index(own, []byte("created by ")); i >= 0 {
			own = own[:i]
		}
		if !bytes.Contains(own, []byte("scheduler/advanced.(*Service).Schedule")) {
			continue
		}
		sg := schedGoroutine{text: string(g)}
		f := bytes.Fields(head)
		if len(f) >= 2 {
			sg.id = string(f[1])
		}
		if i, j := bytes.IndexByte(head, '['), bytes.LastIndexByte(head, ']'); i >= 0 && j > i {
			st := string(head[i+1 : j])
			if k := bytes.IndexByte([]byte(st), ','); k >= 0 {
				st = st[:k]
			}
			sg.state = st
		}
		top := own
		if i := bytes.IndexByte(top, '\n'); i >= 0 {
			top = top[:i]
		}
		sg.inScheduler = bytes.Contains(top, []byte(schedPkg))
		res = append(res, sg)
	}
	return res
}

// jobGoroutineParked reports whether more than `leaked` job goroutines of the
// scheduler are blocked in a select.
func jobGoroutineParked(leaked int) bool {
	n := 0
	for _, g := range schedGoroutines() {
		if g.state == "select" {
			n++
		}
	}
	return n > leaked
}

// stuckBlocked lists the job goroutines that are parked inside scheduler code on
// a channel operation.
func stuckBlocked(gs []schedGoroutine) map[string]schedGoroutine {
	m := map[string]schedGoroutine{}
	for _, g := range gs {
		if g.inScheduler && (g.state == "select" || g.state == "chan receive" || g.state == "chan send") {
			m[g.id] = g
		}
	}
	return m
}

// exitTB lets a watchdog goroutine report through ev.Violation (which records and
// flushes the violation before calling Fatalf) and then end the process: the
// driver counts a non-zero exit with a recorded violation as that violation.
type exitTB struct{}

func (exitTB) Fatalf(format string, args ...any) {
	fmt.Fprintf(os.Stderr, format+"\n", args...)
	os.Exit(1)
}
func (exitTB) Logf(string, ...any) {}

// currentCase is the program being executed (for the watchdog's replay file).
var currentCase atomic.Pointer[Case]

// blockedAPICalls lists goroutines that are inside a scheduler API call made by
// callOp and parked on a channel operation in scheduler code.
func blockedAPICalls() map[string]schedGoroutine {
	buf := make([]byte, 1<<18)
	n := runtime.Stack(buf, true)
	m := map[string]schedGoroutine{}
	for _, g := range bytes.Split(buf[:n], []byte("\n\n")) {
		nl := bytes.IndexByte(g, '\n')
		if nl < 0 || !bytes.HasPrefix(g, []byte("goroutine ")) {
			continue
		}
		head, own := g[:nl], g[nl+1:]
		if i := bytes.Index(own, []byte("created by ")); i >= 0 {
			own = own[:i]
		}
		if !bytes.Contains(own, []byte("verifharness/c02.callOp")) {
			continue
		}
		top := own
		if i := bytes.IndexByte(top, '\n'); i >= 0 {
			top = top[:i]
		}
		if !bytes.Contains(top, []byte(schedPkg)) {
			continue
		}
		st := ""
		if i, j := bytes.IndexByte(head, '['), bytes.LastIndexByte(head, ']'); i >= 0 && j > i {
			st = string(head[i+1 : j])
			if k := strings.IndexByte(st, ','); k >= 0 {
				st = st[:k]
			}
		}
		if st != "chan send" && st != "chan receive" && st != "select" {
			continue
		}
		f := bytes.Fields(head)
		if len(f) >= 2 {
			m[string(f[1])] = schedGoroutine{id: string(f[1]), state: st, inScheduler: true, text: string(g)}
		}
	}
	return m
}

// callWatchdog runs if a scheduler API call has not returned after stuckAfter: a
// call that is parked on a channel operation inside scheduler code, and still is
// stuckConfirm later, never returns (and, holding the job's state lock, keeps the
// job from finishing).  It is reported and the process ends; go-deadlock would
// end it without a report 30 s later.
func callWatchdog(kind string) {
	b1 := blockedAPICalls()
	if len(b1) == 0 {
		return
	}
	time.Sleep(stuckConfirm)
	b2 := blockedAPICalls()
	for id, g := range b1 {
		if g2, ok := b2[id]; ok && g2.state == g.state {
			ev.Violation(exitTB{}, "call-blocked:"+kind, currentCase.Load(), "a scheduler call did not return: it is parked [%s] inside scheduler code and stayed there from %v after it began; goroutine: %s", g2.state, stuckAfter, g2.text)
		}
	}
}

func callOp(s *advanced.Service, parentCancel context.CancelFunc, kind, ctxMode string, t0 time.Time, r *opRes) {
	wd := time.AfterFunc(stuckAfter, func() { callWatchdog(kind) })
	defer wd.Stop()
	defer func() {
		if p := recover(); p != nil {
			r.panicked = fmt.Sprint(p)
			r.end = time.Since(t0)
			r.returned = true
		}
	}()
	// the caller's own context
	ctx, cancel := context.WithCancel(context.Background())
	defer cancel()
	switch ctxMode {
	case "cancelled":
		cancel()
	case "cancel-soon":
		tm := time.AfterFunc(30*time.Microsecond, cancel)
		defer tm.Stop()
	}
	r.start = time.Since(t0)
	switch kind {
	case "run":
		r.err = s.RunJob(ctx, jobName)
		r.hasErr = true
	case "runif":
		s.RunJobIfExists(ctx, jobName)
	case "cancel":
		r.err = s.CancelJob(ctx, jobName)
		r.hasErr = true
	case "cancelif":
		s.CancelJobIfExists(ctx, jobName)
	case "ctxcancel":
		parentCancel()
	}
	r.end = time.Since(t0)
	r.returned = true
}

// runRep executes the program once.  base is the goroutine count of the idle
// process (including the canary).
func runRep(c *Case, base int, can *canary, leaked map[string]bool, leakedSelect int) (*obs, error) {
	if c.Per != nil {
		return runPer(c, base, can, leaked, leakedSelect)
	}
	if c.Multi != nil {
		return runMulti(c, base, can, leaked, leakedSelect)
	}
	if c.Far != nil {
		return runFar(c, base, can, leaked, leakedSelect)
	}
	if c.Dup != nil {
		return runDup(c, base, can, leaked, leakedSelect)
	}
	o := &obs{parkedAt: -1}
	bg := context.Background()
	svc, err := advanced.New(bg, advanced.WithLogLevel(zerolog.Disabled))
	if err != nil {
		return nil, err
	}
	ctx, cancelCtx := context.WithCancel(bg)
	defer cancelCtx()
	rec := &recorder{dur: us(c.JobDurUs)}
	can.reset()

	nCalls := 0
	for _, op := range c.Ops {
		nCalls += op.Mult
	}
	if c.Recycle != nil {
		nCalls = 1
	}
	o.ops = make([]opRes, nCalls)
	o.ticks = make([]time.Duration, len(c.TicksUs))
	for i, v := range c.TicksUs {
		o.ticks[i] = us(v)
	}

	var hmu sync.Mutex
	var t0 time.Time
	var recycled atomic.Bool
	next := 0
	runtimeFunc := func(context.Context) (time.Time, error) {
		hmu.Lock()
		defer hmu.Unlock()
		now := time.Since(t0)
		if recycled.Load() && c.Recycle != nil {
			switch c.Recycle.OldEnd {
			case "nomore":
				o.exhausted = true
				return time.Time{}, scheduler.ErrNoMoreInstances
			case "error":
				o.exhausted = true
				return time.Time{}, errors.New("scripted runtime function error")
			}
		}
		var v time.Duration
		switch {
		case next < len(o.ticks):
			v = o.ticks[next]
			next++
		case c.PeriodUs <= 0 || now >= us(c.HorizonUs):
			o.exhausted = true
			return time.Time{}, scheduler.ErrNoMoreInstances
		default:
			g0, p := o.ticks[0], us(c.PeriodUs)
			if g0 < 0 {
				g0 = 0
			}
			k := int64(0)
			if now >= g0 {
				k = int64((now-g0)/p) + 1
			}
			v = g0 + time.Duration(k)*p
		}
		o.handouts = append(o.handouts, now)
		o.handVals = append(o.handVals, v)
		return t0.Add(v), nil
	}
	schedule := func() error {
		if c.Periodic {
			return svc.SchedulePeriodicJob(ctx, "c02", jobName, runtimeFunc, rec.job)
		}
		return svc.ScheduleJob(ctx, "c02", jobName, t0.Add(o.ticks[0]), rec.job)
	}

	var rec2 *recorder
	if c.Recycle != nil {
		rc := &recycleObs{}
		o.rc = rc
		t0 = time.Now()
		rec.t0 = t0
		if err := schedule(); err != nil {
			return nil, fmt.Errorf("schedule: %w", err)
		}
		switch {
		case c.Periodic:
			// wait for an instance of the periodic job to be in progress
			for i := 0; ; i++ {
				rec.mu.Lock()
				cur := rec.cur
				rec.mu.Unlock()
				if cur > 0 {
					break
				}
				if i > 4000 {
					rc.skipped = "no instance of the periodic job in progress within 200ms"
					break
				}
				time.Sleep(50 * time.Microsecond)
			}
		case c.Mode != "M1" && c.Recycle.OldDue == "timer":
			at := t0.Add(us(c.Recycle.AtUs))
			if d := time.Until(at) - 300*time.Microsecond; d > 0 {
				time.Sleep(d)
			}
			for time.Until(at) > 0 {
			}
		case c.Mode != "M1" && c.Recycle.AtUs > 0:
			time.Sleep(us(c.Recycle.AtUs))
		}
		if rc.skipped == "" {
			// cancel and, without anything in between, schedule the name again
			o.ops[0].kind = "cancel"
			callOp(svc, cancelCtx, "cancel", "", t0, &o.ops[0])
			rc.cancelErr = o.ops[0].err
			recycled.Store(true)
			rec2 = &recorder{t0: t0}
			at := time.Now().Add(us(c.Recycle.NewOffUs))
			rc.newRuntime = at.Sub(t0)
			if c.Recycle.NewPeriodic {
				newEnd := rc.newRuntime + 10*time.Millisecond
				asked := 0
				var nmu sync.Mutex
				rc.schedErr = svc.SchedulePeriodicJob(bg, "c02", jobName, func(context.Context) (time.Time, error) {
					nmu.Lock()
					defer nmu.Unlock()
					now := time.Since(t0)
					asked++
					switch {
					case asked == 1:
						return at, nil
					case now >= newEnd:
						return time.Time{}, scheduler.ErrNoMoreInstances
					}
					k := int64((now-rc.newRuntime)/(3*time.Millisecond)) + 1
					return at.Add(time.Duration(k) * 3 * time.Millisecond), nil
				}, rec2.job)
			} else {
				rc.schedErr = svc.ScheduleJob(bg, "c02", jobName, at, rec2.job)
			}
			if c.Recycle.OldDue == "ctx" || c.Recycle.OldEnd == "ctx" {
				cancelCtx()
			}
		}
		if rc.skipped == "" && rc.schedErr == nil {
			// let the cancelled job's goroutine deal with its signal (a periodic job
			// first finishes the instance in progress)
			time.Sleep(us(c.JobDurUs) + 2*time.Millisecond)
			rc.exists = svc.JobExists(bg, jobName)
			for _, n := range svc.ListJobs(bg) {
				if n == jobName {
					rc.listed = true
				}
			}
			rc.dupErr = svc.ScheduleJob(bg, "c02", jobName, at0(t0, rc.newRuntime), rec2.job)
			rc.checkAt = time.Since(t0)
			switch c.Recycle.Follow {
			case "run":
				rc.followStart = time.Since(t0)
				rc.followErr = svc.RunJob(bg, jobName)
				rc.followEnd = time.Since(t0)
			case "cancel":
				rc.parkedBefore = jobGoroutineParked(leakedSelect)
				rc.followStart = time.Since(t0)
				rc.followErr = svc.CancelJob(bg, jobName)
				rc.followEnd = time.Since(t0)
			}
		}
	} else if c.Mode == "M1" {
		// Everything up to the end of this block runs without yielding the only P.
		t0 = time.Now()
		rec.t0 = t0
		if err := schedule(); err != nil {
			return nil, fmt.Errorf("schedule: %w", err)
		}
		k := 0
		for _, op := range c.Ops {
			for m := 0; m < op.Mult; m++ {
				o.ops[k].kind = op.Kind
				callOp(svc, cancelCtx, op.Kind, op.Ctx, t0, &o.ops[k])
				k++
			}
		}
	} else {
		var wg sync.WaitGroup
		scheduled := make(chan struct{})
		k := 0
		for _, op := range c.Ops {
			for m := 0; m < op.Mult; m++ {
				r := &o.ops[k]
				r.kind = op.Kind
				r.planned = us(c.TicksUs[0] + int64(op.Tick)*c.PeriodUs + op.OffUs)
				k++
				wg.Add(1)
				go func(kind, ctxMode string) {
					defer wg.Done()
					<-scheduled
					at := t0.Add(r.planned)
					if d := time.Until(at) - 300*time.Microsecond; d > 0 {
						time.Sleep(d)
					}
					for time.Until(at) > 0 {
					}
					callOp(svc, cancelCtx, kind, ctxMode, t0, r)
				}(op.Kind, op.Ctx)
			}
		}
		t0 = time.Now()
		rec.t0 = t0
		if err := schedule(); err != nil {
			close(scheduled)
			wg.Wait()
			return nil, fmt.Errorf("schedule: %w", err)
		}
		close(scheduled)
		if o.ticks[0] >= margin {
			// The "cancelled clearly before" clause needs to know that the job goroutine
			// had reached its select before the cancellation (on a loaded machine a
			// goroutine that has not started yet can be left waiting for tens of ms).
			for i := 0; i < 20; i++ {
				if jobGoroutineParked(leakedSelect) {
					o.parkedAt = time.Since(t0)
					break
				}
				time.Sleep(200 * time.Microsecond)
			}
		}
		done := make(chan struct{})
		go func() { wg.Wait(); close(done) }()
		var lastPlanned time.Duration
		for i := range o.ops {
			if o.ops[i].planned > lastPlanned {
				lastPlanned = o.ops[i].planned
			}
		}
		select {
		case <-done:
		case <-time.After(lastPlanned + settleCeiling):
			for i := range o.ops {
				if !o.ops[i].returned {
					o.hung = o.ops[i].kind
				}
			}
			return o, nil
		}
	}

	// settle: the scheduler's goroutines (job goroutine, lock watchdogs) are gone.
	lastTick := o.ticks[len(o.ticks)-1]
	if h := us(c.HorizonUs + c.PeriodUs); h > lastTick {
		lastTick = h
	}
	if o.rc != nil && o.rc.newRuntime > lastTick && !c.Periodic {
		lastTick = o.rc.newRuntime
	}
	if o.rc != nil && c.Periodic {
		// the cancelled periodic job is expected to be gone; what remains due is the
		// new job (a periodic job that ignores the cancel goes on to its horizon and
		// is then seen by the ordinary clauses)
		lastTick = o.rc.newRuntime
	}
	if o.rc != nil && c.Recycle.NewPeriodic {
		lastTick = o.rc.newRuntime + 15*time.Millisecond
	}
	progress := func() [3]int {
		hmu.Lock()
		h := len(o.handouts)
		hmu.Unlock()
		n2, c2 := 0, 0
		if rec2 != nil {
			rec2.mu.Lock()
			n2, c2 = len(rec2.runs), rec2.cur
			rec2.mu.Unlock()
		}
		rec.mu.Lock()
		defer rec.mu.Unlock()
		return [3]int{h, len(rec.runs) + n2, rec.cur + c2}
	}
	var stuck *schedGoroutine
	o.settled, stuck = settle(base, t0.Add(lastTick), can, leaked, progress)
	o.runs, o.maxConc = rec.snapshot()
	if stuck != nil {
		o.stuck, o.stuckDump = stuck.state, stuck.text
		if c.Periodic {
			// corroboration only: what does an early-run request say now?
			res := make(chan error, 1)
			go func() { res <- svc.RunJob(bg, jobName) }()
			select {
			case err := <-res:
				o.stuckProbe = fmt.Sprintf("RunJob now returns %v", err)
			case <-time.After(300 * time.Millisecond):
				o.stuckProbe = "RunJob now does not return"
			}
		}
		return o, nil
	}
	if !c.Periodic && len(o.runs) == 0 && o.settled {
		// A one-off job that has not run: look again when its runtime is clearly
		// over, so that neither "never ran" nor "dropped" rests on the goroutine
		// count alone.
		if d := time.Until(t0.Add(o.ticks[0] + margin)); d > 0 {
			time.Sleep(d)
			o.settled = waitGoroutines(base, settleCeiling)
			o.runs, o.maxConc = rec.snapshot()
		}
	}
	if o.rc != nil && rec2 != nil {
		if o.rc.schedErr == nil {
			// the new job: look (again) when its runtime is clearly over
			if d := time.Until(t0.Add(o.rc.newRuntime + margin)); d > 0 && o.settled {
				rs, _ := rec2.snapshot()
				if len(rs) == 0 {
					time.Sleep(d)
					o.settled = waitGoroutines(base, settleCeiling)
				}
			}
		}
		o.rc.runs, _ = rec2.snapshot()
		o.rc.settledAfterward = o.settled
	}
	o.exists = svc.JobExists(bg, jobName)
	for _, n := range svc.ListJobs(bg) {
		if n == jobName {
			o.listed = true
		}
	}
	for i := range o.ops {
		if c.Mode == "M2" && c.Recycle == nil && o.ops[i].start-o.ops[i].planned > perturbedGap {
			o.perturbed = true
		}
	}
	if can.gap() > perturbedGap {
		o.perturbed = true
	}
	for _, r := range o.runs {
		if r.end < 0 || r.end-r.start > us(c.JobDurUs)+perturbedGap {
			o.perturbed = true
		}
	}

	if c.Resched && o.settled {
		rec2 := &recorder{t0: time.Now()}
		o.reschedErr = svc.ScheduleJob(bg, "c02", jobName, time.Now().Add(300*time.Microsecond), rec2.job)
		if o.reschedErr == nil {
			o.reschedOK = waitGoroutines(base, settleCeiling)
			r2, _ := rec2.snapshot()
			o.reschedN = len(r2)
		} else {
			o.reschedOK = true
		}
	}
	return o, nil
}

// ---------------------------------------------------------------------------
// oracle

type verdict struct {
	sig    string
	detail string
}

type facts struct {
	anyRunNow    bool // a run or runif call was issued
	okRun        int  // RunJob calls that returned nil
	cancelIssued bool // any cancel/cancelif/ctxcancel call was issued
	cancelOK     bool // a CancelJob returned nil, or a cancelif/ctxcancel was issued
	lastOpEnd    time.Duration
}

func collect(o *obs) facts {
	var f facts
	for _, r := range o.ops {
		switch r.kind {
		case "run":
			f.anyRunNow = true
			if r.err == nil && r.panicked == "" {
				f.okRun++
			}
		case "runif":
			f.anyRunNow = true
		case "cancel":
			f.cancelIssued = true
			if r.err == nil {
				f.cancelOK = true
			}
		case "cancelif", "ctxcancel":
			f.cancelIssued = true
			f.cancelOK = true
		}
		if r.end > f.lastOpEnd {
			f.lastOpEnd = r.end
		}
	}
	return f
}

// cancelInstant returns the earliest instant at which a cancellation is known to
// have taken effect (CancelJob returned nil, CancelJobIfExists or the parent
// context's cancel returned), and whether the "cancelled clearly before" clause
// may be judged at all: not if a run-now request began before that instant (then
// the run request may legitimately win), and for a parent-context cancellation not
// if the program contains any run-now request (the job stays claimable until its
// goroutine has seen the cancellation).
func cancelInstant(o *obs) (time.Duration, bool) {
	var tc time.Duration
	found, byCtx := false, false
	for _, r := range o.ops {
		if (r.kind == "cancel" && r.err == nil && r.panicked == "") || r.kind == "cancelif" || r.kind == "ctxcancel" {
			if !found || r.end < tc {
				tc, found, byCtx = r.end, true, r.kind == "ctxcancel"
			}
		}
	}
	if !found {
		return 0, false
	}
	for _, r := range o.ops {
		if r.kind == "run" || r.kind == "runif" {
			if byCtx || r.start <= tc {
				return 0, false
			}
		}
	}
	return tc, true
}

// clearCancel: the job was cancelled clearly before its (first) runtime, and the
// harness knows that the job goroutine could not have been kept from seeing the
// cancellation first: in M1 the whole process shares one P (a stall shows up in the
// canary, see perturbed); in M2 the goroutine was seen parked in its select before
// the cancelling call began.
func clearCancel(c *Case, o *obs) (time.Duration, bool) {
	tc, ok := cancelInstant(o)
	if !ok || tc+margin > o.ticks[0] || o.perturbed {
		return 0, false
	}
	if c.Mode != "M1" {
		if o.parkedAt < 0 {
			return 0, false
		}
		for _, r := range o.ops {
			if (r.kind == "cancel" || r.kind == "cancelif" || r.kind == "ctxcancel") && r.start <= o.parkedAt {
				return 0, false
			}
		}
	}
	return tc, true
}

func describe(o *obs) string {
	s := fmt.Sprintf("runs=%d", len(o.runs))
	for _, r := range o.runs {
		s += fmt.Sprintf(" [%v..%v]", r.start, r.end)
	}
	s += fmt.Sprintf("; runtimes=%v; ops:", o.ticks)
	for _, r := range o.ops {
		res := ""
		if r.hasErr {
			res = fmt.Sprintf("=%v", r.err)
		}
		if r.panicked != "" {
			res = "=PANIC " + r.panicked
		}
		s += fmt.Sprintf(" %s@%v..%v%s", r.kind, r.start, r.end, res)
	}
	if len(o.handouts) > 0 || o.exhausted {
		s += fmt.Sprintf("; runtimeFunc called at %v returned %v, no-more-instances=%v", o.handouts, o.handVals, o.exhausted)
	}
	return s
}

func judgeCommon(c *Case, o *obs) []verdict {
	var vs []verdict
	for _, r := range o.ops {
		if r.panicked != "" {
			vs = append(vs, verdict{"panic:" + r.kind, "scheduler call panicked: " + r.panicked})
		}
	}
	return vs
}

func judgeNameFree(c *Case, o *obs) []verdict {
	var vs []verdict
	if !o.settled {
		return vs
	}
	if o.exists || o.listed {
		vs = append(vs, verdict{"name-still-listed-after-finish", fmt.Sprintf("after the job finished JobExists=%v, listed=%v", o.exists, o.listed)})
	}
	if c.Resched && o.reschedOK {
		if o.reschedErr != nil {
			vs = append(vs, verdict{"name-not-reusable", "scheduling the finished job's name again failed: " + o.reschedErr.Error()})
		} else if o.reschedN != 1 {
			vs = append(vs, verdict{"rescheduled-job-not-run-once", fmt.Sprintf("the job scheduled again under the same name ran %d times", o.reschedN)})
		}
	}
	return vs
}

// judgeOneOff: one-off job contract.
func judgeOneOff(c *Case, o *obs) []verdict {
	vs := judgeCommon(c, o)
	if o.hung != "" {
		return vs
	}
	f := collect(o)
	n := len(o.runs)
	if n > 1 {
		vs = append(vs, verdict{"oneoff-ran-twice", fmt.Sprintf("one-off job ran %d times", n)})
	}
	if n == 0 {
		switch {
		case f.okRun > 0 && !ctxCancelIssued(o):
			// whatever a CancelJob said: "an early-run request that reports success
			// means the job runs"
			vs = append(vs, verdict{"oneoff-dropped-after-early-run", "RunJob returned nil, the parent context was not cancelled, and the job never ran"})
		case !f.cancelOK && f.anyRunNow:
			vs = append(vs, verdict{"oneoff-dropped-after-early-run", "the job was not cancelled, an early-run request was issued, and the job never ran"})
		case !f.cancelOK:
			vs = append(vs, verdict{"oneoff-dropped", "the job was not cancelled and never ran"})
		}
	}
	if tc, ok := clearCancel(c, o); ok && n > 0 {
		vs = append(vs, verdict{"oneoff-ran-after-cancel", fmt.Sprintf("cancelled at %v, runtime %v, yet the job ran", tc, o.ticks[0])})
	}
	vs = append(vs, judgeNameFree(c, o)...)
	return vs
}

func ctxCancelIssued(o *obs) bool {
	for _, r := range o.ops {
		if r.kind == "ctxcancel" {
			return true
		}
	}
	return false
}

// judgePeriodic: periodic job contract.
func judgePeriodic(c *Case, o *obs) []verdict {
	vs := judgeCommon(c, o)
	if o.hung != "" {
		return vs
	}
	f := collect(o)
	if o.maxConc > 1 {
		vs = append(vs, verdict{"periodic-overlap", fmt.Sprintf("periodic job function ran %d times concurrently", o.maxConc)})
	}
	horizon := us(c.HorizonUs)
	// far: the job winds down clearly behind every operation, so no request can
	// be in flight at that moment.
	far := c.Mode == "M1" || (horizon >= f.lastOpEnd+margin && !o.perturbed)
	if !f.cancelIssued {
		if f.anyRunNow && !o.exhausted {
			vs = append(vs, verdict{"periodic-stopped-after-early-run", fmt.Sprintf("after an early run the job stopped asking for its next runtime (asked %d times, never told that there are no more instances)", len(o.handouts))})
		}
		if f.anyRunNow && o.exhausted && !o.perturbed && c.PeriodUs > 0 && horizon >= f.lastOpEnd+margin && len(o.handVals) > 0 {
			// the last runtime handed out lies behind every operation: it must fire
			lastVal := o.handVals[len(o.handVals)-1]
			fired := false
			for _, r := range o.runs {
				if r.start >= lastVal {
					fired = true
				}
			}
			if !fired {
				vs = append(vs, verdict{"periodic-no-tick-after-early-run", fmt.Sprintf("no run at the last runtime handed out (%v) after an early run", lastVal)})
			}
		}
		if far && f.okRun > 0 {
			// every successful RunJob needs its own run starting after the call began
			var starts []time.Duration
			for _, r := range o.ops {
				if r.kind == "run" && r.err == nil && r.panicked == "" {
					starts = append(starts, r.start)
				}
			}
			sort.Slice(starts, func(i, j int) bool { return starts[i] > starts[j] })
			for i, cs := range starts {
				cnt := 0
				for _, r := range o.runs {
					if r.start >= cs {
						cnt++
					}
				}
				if cnt < i+1 {
					vs = append(vs, verdict{"periodic-early-run-dropped", fmt.Sprintf("%d RunJob calls returned nil from %v on but only %d runs started after that", i+1, cs, cnt)})
					break
				}
			}
		}
	}
	// cancelled: no run for a runtime that lies clearly behind the cancellation.  A
	// run counts only if the job asked for that runtime no later than margin/2 after
	// the cancellation and at least margin/2 ahead of it (so that its select was
	// evaluated with the cancellation, and without the timer, ready).
	if tc, ok := cancelInstant(o); ok && !o.perturbed {
	scan:
		for _, r := range o.runs {
			if r.start <= tc+margin {
				continue
			}
			for i := len(o.handouts) - 1; i >= 0; i-- {
				if o.handouts[i] > r.start {
					continue
				}
				h, v := o.handouts[i], o.handVals[i]
				if v > tc+margin && h <= tc+margin/2 && v-h >= margin/2 {
					vs = append(vs, verdict{"periodic-ran-after-cancel", fmt.Sprintf("cancelled at %v yet a run for the runtime %v (asked for at %v) started at %v", tc, v, h, r.start)})
					break scan
				}
				break
			}
		}
	}
	// a timer never fires early: every run that began clearly before the runtime the
	// job was waiting for needs an early-run request of its own
	reqs := 0
	for _, r := range o.ops {
		if (r.kind == "run" && r.err == nil) || r.kind == "runif" {
			reqs++
		}
	}
	if e := earlyRuns(o); e > reqs {
		vs = append(vs, verdict{"periodic-ran-with-nothing-due", fmt.Sprintf("%d runs began before the runtime the job was waiting for, with at most %d successful early-run requests", e, reqs)})
	}
	vs = append(vs, judgeNameFree(c, o)...)
	return vs
}

// judgeRecycle: the job scheduled under a cancelled job's name is a job like any
// other: while it is pending the scheduler knows it (listed, its name is taken, it
// can be run early and cancelled), it runs exactly once unless cancelled, and a
// cancel clearly before its time means it never runs.
func judgeRecycle(c *Case, o *obs) (vs []verdict) {
	rc := o.rc
	if rc == nil || rc.skipped != "" || rc.cancelErr != nil {
		return nil
	}
	// The old job must have been cancelled clearly before its own runtime (a cancel
	// that lands on the runtime may lose against the timer, and what the old job then
	// does to the table is another matter); a periodic old job must not have reached
	// the end of its runtimes.
	class := ""
	if !c.Periodic && c.Recycle.OldDue != "" {
		// The old job goroutine may take its timer / parent-context arm instead of
		// the cancel arm.  Whatever it does with the OLD job is not judged here (the
		// cancel was not clearly before); what happens to the NEW job is, under
		// signatures of their own.
		class = ":after-old-job-" + c.Recycle.OldDue
	} else if !c.Periodic && o.ops[0].end+margin > o.ticks[0] {
		return nil
	}
	if c.Periodic && o.exhausted && c.Recycle.OldEnd == "" {
		return nil
	}
	if class != "" {
		defer func() {
			// consequences of one another: report the first only
			if len(vs) > 1 {
				vs = vs[:1]
			}
			for i := range vs {
				vs[i].sig += class
			}
		}()
	}
	if rc.schedErr != nil {
		return append(vs, verdict{"name-not-reusable", "CancelJob returned nil but scheduling the name again at once failed: " + rc.schedErr.Error()})
	}
	if !rc.settledAfterward {
		return vs
	}
	what := fmt.Sprintf("new job due at %v, checked at %v: JobExists=%v listed=%v, scheduling the name once more returned %v; follow-up %s@%v..%v returned %v; new job runs=%v", rc.newRuntime, rc.checkAt, rc.exists, rc.listed, rc.dupErr, c.Recycle.Follow, rc.followStart, rc.followEnd, rc.followErr, rc.runs)
	startedBefore := func(t time.Duration) bool {
		for _, r := range rc.runs {
			if r.start <= t {
				return true
			}
		}
		return false
	}
	pending := rc.checkAt+margin <= rc.newRuntime && !startedBefore(rc.checkAt)
	if pending {
		if !rc.exists || !rc.listed {
			vs = append(vs, verdict{"recycled-job-not-listed", "a pending job scheduled under a just-cancelled name is not known to the scheduler: " + what})
		}
		if rc.dupErr == nil {
			vs = append(vs, verdict{"recycled-name-accepted-twice", "the name of a pending job was accepted again: " + what})
		}
	}
	if rc.dupErr == nil {
		// a third job exists under the name (legitimately, if the check came after the
		// new job had run): nothing more can be said about counts
		return vs
	}
	n := len(rc.runs)
	if c.Recycle.NewPeriodic {
		// the new incarnation ticks a few times and then finishes by itself
		clearly := pending && rc.followEnd+margin <= rc.newRuntime
		switch c.Recycle.Follow {
		case "timer":
			if n == 0 {
				vs = append(vs, verdict{"recycled-job-not-run", "the new periodic job was not cancelled and never ran: " + what})
			}
		case "run":
			if clearly && rc.followErr != nil {
				vs = append(vs, verdict{"recycled-job-run-now-refused", "RunJob on the pending new job failed: " + what})
			}
			if n == 0 {
				vs = append(vs, verdict{"recycled-job-not-run", "the new periodic job was not cancelled and never ran: " + what})
			}
		case "cancel":
			if clearly && rc.followErr != nil {
				vs = append(vs, verdict{"recycled-job-cancel-refused", "CancelJob on the pending new job failed: " + what})
			}
			if clearly && rc.followErr == nil && rc.parkedBefore && !o.perturbed && n != 0 {
				vs = append(vs, verdict{"recycled-job-ran-after-cancel", "the new job was cancelled clearly before its time and ran: " + what})
			}
		}
		return vs
	}
	switch c.Recycle.Follow {
	case "timer":
		if n != 1 {
			vs = append(vs, verdict{"recycled-job-not-run-once", "the new job was not cancelled and did not run exactly once: " + what})
		}
	case "run":
		if pending && rc.followEnd+margin <= rc.newRuntime && rc.followErr != nil {
			vs = append(vs, verdict{"recycled-job-run-now-refused", "RunJob on the pending new job failed: " + what})
		}
		if n != 1 {
			vs = append(vs, verdict{"recycled-job-not-run-once", "the new job was not cancelled and did not run exactly once: " + what})
		}
	case "cancel":
		clearly := pending && rc.followEnd+margin <= rc.newRuntime
		if clearly && rc.followErr != nil {
			vs = append(vs, verdict{"recycled-job-cancel-refused", "CancelJob on the pending new job failed: " + what})
			if n != 1 {
				vs = append(vs, verdict{"recycled-job-not-run-once", "the new job was not cancelled and did not run exactly once: " + what})
			}
		}
		if clearly && rc.followErr == nil && rc.parkedBefore && !o.perturbed && n != 0 {
			vs = append(vs, verdict{"recycled-job-ran-after-cancel", "the new job was cancelled clearly before its time and ran: " + what})
		}
		if n > 1 {
			vs = append(vs, verdict{"recycled-job-not-run-once", "the new job ran more than once: " + what})
		}
	}
	return vs
}

// judgeStuck: the scheduler's own job goroutine of this repetition is parked for
// good inside scheduler code (see settle).  The statement speaks about two such
// situations: a periodic job that does not keep ticking after an early run, and a
// one-off job that was neither cancelled nor run.
func judgeStuck(c *Case, o *obs) []verdict {
	vs := judgeCommon(c, o)
	f := collect(o)
	where := fmt.Sprintf("its job goroutine is parked in scheduler code [%s] and stayed there, with no runtime asked for and no run started, from %v after everything was due", o.stuck, stuckAfter)
	if o.stuckProbe != "" {
		where += "; " + o.stuckProbe + " while the job function is not executing"
	}
	where += "; goroutine: " + o.stuckDump
	if c.Periodic {
		if o.maxConc > 1 {
			vs = append(vs, verdict{"periodic-overlap", fmt.Sprintf("periodic job function ran %d times concurrently", o.maxConc)})
		}
		if !f.cancelIssued && f.anyRunNow {
			last := "none"
			if n := len(o.handVals); n > 0 {
				last = fmt.Sprint(o.handVals[n-1])
			}
			vs = append(vs, verdict{"periodic-stopped-after-early-run", fmt.Sprintf("after an early run the job stopped ticking (asked for a runtime %d times, last one %s, never told that there are no more instances): %s", len(o.handouts), last, where)})
		}
		return vs
	}
	n := len(o.runs)
	if n > 1 {
		vs = append(vs, verdict{"oneoff-ran-twice", fmt.Sprintf("one-off job ran %d times", n)})
	}
	if n == 0 && !ctxCancelIssued(o) && !f.cancelOK {
		sig := "oneoff-dropped"
		if f.anyRunNow {
			sig = "oneoff-dropped-after-early-run"
		}
		vs = append(vs, verdict{sig, "the job was not cancelled and never ran: " + where})
	}
	return vs
}

// ---------------------------------------------------------------------------
// check = run + judge, R repetitions

func setRuntime(c *Case) func() {
	oldProcs := 0
	if c.Mode == "M1" {
		oldProcs = runtime.GOMAXPROCS(1)
	}
	oldDebug, hadDebug := os.LookupEnv("GODEBUG")
	if c.SyncTimer {
		os.Setenv("GODEBUG", "asynctimerchan=0")
	} else {
		os.Setenv("GODEBUG", "asynctimerchan=1")
	}
	return func() {
		if hadDebug {
			os.Setenv("GODEBUG", oldDebug)
		} else {
			os.Unsetenv("GODEBUG")
		}
		if oldProcs > 0 {
			runtime.GOMAXPROCS(oldProcs)
		}
	}
}

func nontrivial(c *Case) bool {
	if c.Recycle != nil || c.Far != nil || c.Dup != nil || c.Multi != nil || c.Per != nil {
		return true
	}
	for _, op := range c.Ops {
		switch op.Kind {
		case "cancel", "cancelif", "ctxcancel":
			return true
		case "run", "runif":
			if c.Periodic || c.Mode == "M1" || (op.OffUs >= -2000 && op.OffUs <= 2000) {
				return true
			}
		}
	}
	return false
}

func labels(c *Case) []string {
	ls := []string{"mode:" + c.Mode}
	if c.Periodic {
		ls = append(ls, "kind:periodic")
	} else {
		ls = append(ls, "kind:one-off")
	}
	if c.SyncTimer {
		ls = append(ls, "timerchan:sync")
	} else {
		ls = append(ls, "timerchan:async")
	}
	seen := map[string]bool{}
	for _, op := range c.Ops {
		if !seen[op.Kind] {
			seen[op.Kind] = true
			ls = append(ls, "op:"+op.Kind)
		}
		if op.Mult > 1 && !seen["mult"] {
			seen["mult"] = true
			ls = append(ls, "op:multiplicity>1")
		}
		if c.Mode == "M2" && (op.Kind == "run" || op.Kind == "runif") && op.OffUs >= -100 && op.OffUs <= 300 && !seen["near"] {
			seen["near"] = true
			ls = append(ls, "run-now-within[-100us,+300us]-of-runtime")
		}
		if op.OffUs <= -25000 && !seen["clear"] {
			seen["clear"] = true
			ls = append(ls, "cancel-clearly-before")
		}
	}
	if c.TicksUs[0] < 0 {
		ls = append(ls, "runtime-already-due")
	}
	if c.Far != nil {
		ls = append(ls, "far-future-runtime", "far-future-runtime:"+c.Far.When, "far-future-runtime:follow-"+c.Far.Follow)
	}
	if c.Per != nil {
		ls = append(ls, "periodic:"+c.Per.Variant+c.Per.Err)
	}
	if c.Multi != nil {
		ls = append(ls, "canceljobs-by-prefix")
		m := 0
		for _, n := range c.Multi.Names {
			if strings.HasPrefix(n, c.Multi.Prefix) {
				m++
			}
		}
		switch {
		case m == 0:
			ls = append(ls, "canceljobs-by-prefix:matches-none")
		case m == len(c.Multi.Names):
			ls = append(ls, "canceljobs-by-prefix:matches-all")
		default:
			ls = append(ls, "canceljobs-by-prefix:matches-some")
		}
	}
	if c.Dup != nil {
		ls = append(ls, "concurrent-schedule-same-name", "concurrent-schedule-same-name:follow-"+c.Dup.Follow)
	}
	if c.Recycle != nil {
		ls = append(ls, "cancel-then-reschedule-same-name", "cancel-then-reschedule:follow-"+c.Recycle.Follow)
		if c.Recycle.OldDue != "" {
			ls = append(ls, "cancel-then-reschedule:old-job-"+c.Recycle.OldDue+"-arm-may-win")
		}
		if c.Recycle.OldEnd != "" {
			ls = append(ls, "cancel-then-reschedule:old-periodic-job-ends-by-"+c.Recycle.OldEnd)
		}
		if c.Recycle.NewPeriodic {
			ls = append(ls, "cancel-then-reschedule:new-job-periodic")
		}
	}
	for _, op := range c.Ops {
		if op.Ctx != "" {
			ls = append(ls, "op-with-caller-context:"+op.Ctx)
			break
		}
	}
	if c.Resched {
		ls = append(ls, "reschedule-same-name")
	}
	return ls
}

func check(t ev.TB, c *Case) {
	sanitise(c)
	zerolog.SetGlobalLevel(zerolog.Disabled)
	restore := setRuntime(c)
	defer restore()

	currentCase.Store(c)
	nt := nontrivial(c)
	ev.Case(nt, ev.Hash(c), labels(c)...)
	if nt {
		ev.Sample(c)
	}

	can := startCanary()
	defer can.close()
	// idle baseline (includes the canary)
	time.Sleep(time.Millisecond)
	base := runtime.NumGoroutine()
	for i := 0; i < 200; i++ {
		time.Sleep(200 * time.Microsecond)
		b := runtime.NumGoroutine()
		if b == base && i >= 3 {
			break
		}
		base = b
	}

	// job goroutines of the scheduler left behind by earlier programs of this
	// process (only after a reported hang)
	leaked := map[string]bool{}
	leakedSelect := 0
	for _, g := range schedGoroutines() {
		leaked[g.id] = true
		if g.state == "select" {
			leakedSelect++
		}
	}

	fails := map[string]int{}
	firstDetail := map[string]string{}
	var order []string
	judged, perturbed, clearCancels, bothOutcomes := 0, 0, 0, map[int]int{}
	for rep := 0; rep < c.Reps; rep++ {
		o, err := runRep(c, base, can, leaked, leakedSelect)
		if err != nil {
			t.Fatalf("harness problem: %v", err)
		}
		if o.stuck != "" {
			// structural hang of the scheduler's own job goroutine: judge it, and stop
			// repeating (the goroutine stays behind; the next program measures its own
			// baseline)
			ev.Label("job-goroutine-found-stuck")
			vs := judgeStuck(c, o)
			judged++
			if len(vs) == 0 {
				ev.Inconclusive(fmt.Sprintf("job goroutine stuck in a situation the statement does not speak about, repetition %d of %s; %s\n%s", rep, string(mustJSON(c)), describe(o), o.stuckDump))
			}
			for _, v := range vs {
				if fails[v.sig] == 0 {
					order = append(order, v.sig)
					firstDetail[v.sig] = fmt.Sprintf("repetition %d: %s; %s", rep, v.detail, describe(o))
				}
				fails[v.sig]++
			}
			break
		}
		if !o.settled || o.hung != "" {
			// The goroutine count did not come back within the ceiling.  Whatever the
			// reason (a goroutine of the scheduler that is stuck, or a machine that
			// froze this process), nothing can be concluded from this repetition and
			// the idle baseline is gone: record the goroutine dump, give the goroutines
			// another minute, and go on with the next program or give up.
			buf := make([]byte, 1<<18)
			buf = buf[:runtime.Stack(buf, true)]
			ev.Label("settle-ceiling-hit")
			ev.Inconclusive(fmt.Sprintf("goroutines not back at baseline %d (or call %q not returned) after %v in repetition %d of %s; %s\n%s", base, o.hung, settleCeiling, rep, string(mustJSON(c)), describe(o), buf))
			if !waitGoroutines(base, 60*time.Second) {
				t.Fatalf("harness problem: goroutines of a repetition never finished (see inconclusive note): %s", buf)
			}
			break
		}
		var vs []verdict
		switch {
		case c.Per != nil:
			vs = judgePer(c, o)
		case c.Multi != nil:
			vs = judgeMulti(c, o)
		case c.Far != nil:
			vs = judgeFar(c, o)
		case c.Dup != nil:
			vs = judgeDup(c, o)
		case c.Periodic:
			vs = judgePeriodic(c, o)
		default:
			vs = judgeOneOff(c, o)
		}
		vs = append(vs, judgeRecycle(c, o)...)
		if o.rc != nil && o.rc.skipped != "" {
			ev.Label("recycle-not-performed")
		}
		judged++
		if o.perturbed {
			perturbed++
		}
		if c.Far != nil || c.Dup != nil || c.Multi != nil || c.Per != nil {
			// own judgement, no "clearly before" bookkeeping
		} else if _, ok := clearCancel(c, o); ok {
			clearCancels++
		}
		bothOutcomes[len(o.runs)]++
		stop := false
		for _, v := range vs {
			if fails[v.sig] == 0 {
				order = append(order, v.sig)
				firstDetail[v.sig] = fmt.Sprintf("repetition %d: %s; %s", rep, v.detail, describe(o))
			}
			fails[v.sig]++
			// A violation that is not a listed open finding ends the search in this
			// program at once (rapid shrinks from here); a replay goes on to report how
			// many repetitions fail.
			if !ev.IsKnown(v.sig) && ev.ReplayFile() == "" {
				stop = true
			}
		}
		if stop {
			break
		}
	}
	ev.LabelN("repetitions", int64(judged))
	ev.LabelN("repetitions-perturbed(timing clauses not judged)", int64(perturbed))
	ev.LabelN("repetitions-with-judged-clear-cancel", int64(clearCancels))
	if len(bothOutcomes) > 1 {
		ev.Label("program-with-varying-run-count-across-repetitions")
	}
	for _, sig := range order {
		ev.Violation(t, sig, c, "%d of %d repetitions failed; first: %s", fails[sig], judged, firstDetail[sig])
	}
}

func TestBothReady(t *testing.T) {
	rapid.Check(t, func(t *rapid.T) {
		c := genCase(t, "M1")
		check(t, &c)
	})
}

func TestBoundaryStress(t *testing.T) {
	rapid.Check(t, func(t *rapid.T) {
		c := genCase(t, "M2")
		check(t, &c)
	})
}

// TestReplay re-executes a saved program (Reps times) without the property library.
func TestReplay(t *testing.T) {
	f := ev.ReplayFile()
	if f == "" {
		t.Skip("no replay file")
	}
	var c Case
	if _, err := ev.LoadCase(f, &c); err != nil {
		t.Fatalf("cannot load %s: %v", f, err)
	}
	check(t, &c)
	ev.ReplayPassed()
}
