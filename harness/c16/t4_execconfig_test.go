package c16

import (
	"context"
	"encoding/json"
	"fmt"
	"regexp"
	"strings"
	"testing"

	"github.com/attestantio/go-eth2-client/spec/bellatrix"
	"github.com/attestantio/vouch/services/blockrelay"
	"pgregory.net/rapid"

	"verifharness/internal/ev"
)

// ExecConfigCase: an execution configuration document as a config source can
// supply it (any bytes), and the lookups made against it.
type ExecConfigCase struct {
	Doc     Blob          `json:"doc"`
	Queries []ExecCfgLook `json:"queries"`
}

// ExecCfgLook is one ProposerConfig lookup.
type ExecCfgLook struct {
	Account AccountSpec `json:"account"`
	Pubkey  int         `json:"pubkey"` // see pubkeyByIdx
}

var hugeExponent = regexp.MustCompile(`[eE][+-]?[0-9]{4,}`)

// hasHugeMinValue reports whether a JSON document carries a "min_value" string with
// an exponent of four or more digits, at any depth.
func hasHugeMinValue(doc []byte) bool {
	var v any
	if json.Unmarshal(doc, &v) != nil {
		return false
	}
	var walk func(v any) bool
	walk = func(v any) bool {
		switch x := v.(type) {
		case map[string]any:
			for k, e := range x {
				if s, ok := e.(string); ok && k == "min_value" && hugeExponent.MatchString(s) {
					return true
				}
				if walk(e) {
					return true
				}
			}
		case []any:
			for _, e := range x {
				if walk(e) {
					return true
				}
			}
		}
		return false
	}
	return walk(v)
}

var fallbackFeeRecipient = bellatrix.ExecutionAddress{0xfe, 0xfe, 0xfe, 0xfe, 0xfe, 0xfe, 0xfe, 0xfe, 0xfe, 0xfe, 0xfe, 0xfe, 0xfe, 0xfe, 0xfe, 0xfe, 0xfe, 0xfe, 0xfe, 0xfe}

func runExecConfig(c *ExecConfigCase, out *outcome) {
	doc := c.Doc.Bytes()
	if hasHugeMinValue(doc) {
		// A decimal such as 1e999999999 makes shopspring/decimal compute 10^999999999 (minutes of CPU,
		// gigabytes of memory) as soon as the value is divided or converted; that is a resource
		// exhaustion, not a panic, and would take the shared machine down.  Not executed; counted.
		out.label("execconfig:skipped-huge-exponent")
		return
	}
	ctx := context.Background()
	var cfg blockrelay.ExecutionConfigurator
	var err error
	out.addPanic(guard(func() { cfg, err = blockrelay.UnmarshalJSON(doc) }))
	if len(out.panics) > 0 {
		return
	}
	if err != nil || cfg == nil {
		out.label("execconfig:rejected")
		return
	}
	// first validation layer passed: the document was accepted
	out.nontrivial = true
	out.label(fmt.Sprintf("execconfig:accepted-%T", cfg))
	for _, q := range c.Queries {
		account := q.Account.build()
		pubkey := pubkeyByIdx(q.Pubkey)
		out.addPanic(guard(func() {
			pc, err := cfg.ProposerConfig(ctx, account, pubkey, fallbackFeeRecipient, 30000000)
			if err != nil {
				out.label("execconfig:lookup-error")
				return
			}
			if pc == nil {
				out.label("execconfig:lookup-nil")
				return
			}
			out.label("execconfig:lookup-ok")
			if len(pc.Relays) > 0 {
				out.label("execconfig:lookup-with-relays")
			}
			_ = pc.String()
			if _, err := json.Marshal(pc); err != nil {
				out.label("execconfig:result-marshal-error")
			}
			for _, r := range pc.Relays {
				_ = r.String()
			}
		}))
	}
	// What the service logs and what --proposer-config-check prints.
	out.addPanic(guard(func() {
		if s, ok := cfg.(fmt.Stringer); ok {
			_ = s.String()
		}
		b, err := json.Marshal(cfg)
		if err != nil {
			out.label("execconfig:marshal-error")
			return
		}
		if _, err := blockrelay.UnmarshalJSON(b); err != nil {
			out.label("execconfig:remarshal-rejected")
		}
	}))
}

// ---- structure-aware generator ------------------------------------------------

var relayAddrPool = []string{
	"http://relay1.example.com", "relay2.example.com:18550", "https://relay3.example.com/path", "",
	"http://[::1", "https://0x8b5d2e73e2a3a55c6c87b8b6eb92e0149a125c852751db1422fa951e42a09b82c142c3ea98d0d9930b056a3bc9896b8f@relay4.example.com",
}

func genHexField(t *rapid.T, n int, label string) any {
	switch rapid.IntRange(0, 90).Draw(t, label) {
	case 0:
		return ""
	case 1:
		return "0x"
	case 2:
		return "0x" + strings.Repeat("ab", n-1)
	case 3:
		return "0x" + strings.Repeat("zz", n)
	case 4:
		return nil
	case 5:
		return 12345
	case 6:
		return strings.Repeat("11", n) // no 0x prefix
	case 7:
		return "0x" + strings.Repeat("00", n)
	default:
		return "0x" + strings.Repeat(fmt.Sprintf("%02x", rapid.IntRange(1, 255).Draw(t, label+"b")), n)
	}
}

func genNumField(t *rapid.T, label string) any {
	if rapid.IntRange(0, 14).Draw(t, label+"ok") > 0 {
		return rapid.SampledFrom([]any{"30000000", "0", "1", "1000", "2147483647", "2147483648", "4294967295", "4294967296", "9223372036854775807",
			"9223372036854775808", "18446744073709551614", "18446744073709551615"}).Draw(t, label+"v")
	}
	return rapid.SampledFrom([]any{
		"30000000", "0", "1", "", "-1", "18446744073709551615", "18446744073709551616", "abc", nil, 5, "1000",
		"9223372036854775807", "9223372036854775808", " 12", "1.5", true,
	}).Draw(t, label)
}

func genGrace(t *rapid.T, label string) any {
	if rapid.IntRange(0, 14).Draw(t, label+"ok") > 0 {
		return rapid.SampledFrom([]any{"0", "1", "1000", "2147483647", "2147483648", "4294967296", "9223372036854", "9223372036855", "9223372036854775", "9223372036854775807"}).Draw(t, label+"v")
	}
	return genNumField(t, label)
}

func genMinValue(t *rapid.T, label string) any {
	if rapid.IntRange(0, 14).Draw(t, label+"ok") > 0 {
		return rapid.SampledFrom([]any{"0", "0.1", "1", "0.000000000000000001", "0.0000000000000000001", "1e-18", "1e3", "1E+30", "1e400", "1e-400", ".5", "5."}).Draw(t, label+"v")
	}
	return rapid.SampledFrom([]any{
		"0", "0.1", "1", "0.000000000000000001", "0.0000000000000000001", "1e-18", "1e3", "1E+30", "-1", "-0", "abc", "", nil, 1.5,
		"123456789012345678901234567890.123456789012345678901234567890", ".5", "5.", "1e400", "1e-400", "0x10", "NaN", "Inf",
	}).Draw(t, label)
}

func maybeSet(t *rapid.T, m map[string]any, key string, gen func() any) {
	if rapid.IntRange(0, 2).Draw(t, "set-"+key) > 0 {
		m[key] = gen()
	}
}

func genRelayCfg(t *rapid.T, proposerLevel bool) any {
	switch rapid.IntRange(0, 19).Draw(t, "relayCfgKind") {
	case 0, 1:
		return nil // "relay": null
	case 2:
		return rapid.SampledFrom([]any{"x", 1, []any{}, true}).Draw(t, "relayCfgWrong")
	}
	m := map[string]any{}
	maybeSet(t, m, "public_key", func() any { return genHexField(t, 48, "pk") })
	maybeSet(t, m, "fee_recipient", func() any { return genHexField(t, 20, "fr") })
	maybeSet(t, m, "gas_limit", func() any { return genNumField(t, "gl") })
	maybeSet(t, m, "grace", func() any { return genGrace(t, "gr") })
	maybeSet(t, m, "min_value", func() any { return genMinValue(t, "mv") })
	if proposerLevel {
		maybeSet(t, m, "disabled", func() any { return rapid.SampledFrom([]any{true, false, nil, "true", 1}).Draw(t, "dis") })
	}
	return m
}

func genRelayMap(t *rapid.T, proposerLevel bool) any {
	switch rapid.IntRange(0, 29).Draw(t, "relayMapKind") {
	case 0:
		return nil
	case 1:
		return rapid.SampledFrom([]any{[]any{}, "x", 3}).Draw(t, "relayMapWrong")
	}
	m := map[string]any{}
	n := rapid.IntRange(0, 3).Draw(t, "nRelays")
	for i := 0; i < n; i++ {
		m[rapid.SampledFrom(relayAddrPool).Draw(t, "relayAddr")] = genRelayCfg(t, proposerLevel)
	}
	return m
}

func genProposerName(t *rapid.T) any {
	initKeys()
	switch rapid.IntRange(0, 30).Draw(t, "proposerKind") {
	case 0:
		return ""
	case 1:
		return nil
	case 2:
		return "0x" + strings.Repeat("00", 48)
	case 3:
		return "0x1234"
	case 4:
		return "("
	case 5:
		return 7
	case 6, 7, 9, 10, 11, 12, 13, 14, 15, 16:
		return rapid.SampledFrom([]string{"Wallet/.*", "^Wallet/Account 1$", ".*", "<unknown>/.*", "Other/.*", "^$", "W.*/A[0-9]+"}).Draw(t, "proposerRegex")
	case 8:
		return "0xZZ"
	default:
		return hexOf(pubKeys[rapid.IntRange(0, nKeys-1).Draw(t, "proposerKey")][:])
	}
}

func genV2Proposer(t *rapid.T) any {
	switch rapid.IntRange(0, 19).Draw(t, "proposerEntryKind") {
	case 0, 1:
		return nil // "proposers": [null]
	case 2:
		return rapid.SampledFrom([]any{"x", 1, []any{}}).Draw(t, "proposerWrong")
	}
	m := map[string]any{"proposer": genProposerName(t)}
	if rapid.IntRange(0, 15).Draw(t, "dropProposer") == 0 {
		delete(m, "proposer")
	}
	maybeSet(t, m, "fee_recipient", func() any { return genHexField(t, 20, "pfr") })
	maybeSet(t, m, "gas_limit", func() any { return genNumField(t, "pgl") })
	maybeSet(t, m, "grace", func() any { return genGrace(t, "pgr") })
	maybeSet(t, m, "min_value", func() any { return genMinValue(t, "pmv") })
	maybeSet(t, m, "reset_relays", func() any { return rapid.SampledFrom([]any{true, false, nil, "true"}).Draw(t, "rr") })
	maybeSet(t, m, "relays", func() any { return genRelayMap(t, true) })
	return m
}

func genV2Doc(t *rapid.T) map[string]any {
	m := map[string]any{"version": rapid.SampledFrom([]any{2, 2, 2, 2, 2, 2, 2, 2, 2, 2, 2, 2, 2, 2, 2, 2, "2", 2.0, 3, nil}).Draw(t, "version")}
	maybeSet(t, m, "fee_recipient", func() any { return genHexField(t, 20, "efr") })
	maybeSet(t, m, "gas_limit", func() any { return genNumField(t, "egl") })
	maybeSet(t, m, "grace", func() any { return genGrace(t, "egr") })
	maybeSet(t, m, "min_value", func() any { return genMinValue(t, "emv") })
	maybeSet(t, m, "relays", func() any { return genRelayMap(t, false) })
	maybeSet(t, m, "proposers", func() any {
		switch rapid.IntRange(0, 29).Draw(t, "proposersKind") {
		case 0:
			return nil
		case 1:
			return map[string]any{}
		}
		n := rapid.IntRange(0, 3).Draw(t, "nProposers")
		l := make([]any, 0, n)
		for i := 0; i < n; i++ {
			l = append(l, genV2Proposer(t))
		}
		return l
	})
	return m
}

func genV1Builder(t *rapid.T) any {
	switch rapid.IntRange(0, 19).Draw(t, "builderKind") {
	case 0:
		return nil
	case 1:
		return "x"
	}
	m := map[string]any{}
	maybeSet(t, m, "enabled", func() any { return rapid.SampledFrom([]any{true, true, true, true, false, false, nil, "true"}).Draw(t, "en") })
	maybeSet(t, m, "grace", func() any { return genGrace(t, "bgr") })
	maybeSet(t, m, "relays", func() any {
		switch rapid.IntRange(0, 19).Draw(t, "v1relaysKind") {
		case 0:
			return nil
		case 1:
			return []any{nil}
		case 2:
			return []any{1}
		}
		n := rapid.IntRange(1, 3).Draw(t, "nV1Relays")
		l := make([]any, 0, n)
		for i := 0; i < n; i++ {
			l = append(l, rapid.SampledFrom(relayAddrPool).Draw(t, "v1relay"))
		}
		return l
	})
	return m
}

func genV1Proposer(t *rapid.T) any {
	switch rapid.IntRange(0, 19).Draw(t, "v1pcKind") {
	case 0:
		return nil
	case 1:
		return []any{}
	}
	m := map[string]any{}
	if rapid.IntRange(0, 9).Draw(t, "v1hasFee") > 0 {
		m["fee_recipient"] = genHexField(t, 20, "v1fr")
	}
	maybeSet(t, m, "gas_limit", func() any { return genNumField(t, "v1gl") })
	maybeSet(t, m, "builder", func() any { return genV1Builder(t) })
	return m
}

func genV1Doc(t *rapid.T) map[string]any {
	initKeys()
	m := map[string]any{}
	if rapid.IntRange(0, 5).Draw(t, "v1version") == 0 {
		m["version"] = rapid.SampledFrom([]any{0, nil, 1, "0"}).Draw(t, "v1versionVal")
	}
	if rapid.IntRange(0, 11).Draw(t, "v1hasDefault") > 0 {
		m["default_config"] = genV1Proposer(t)
	}
	maybeSet(t, m, "proposer_config", func() any {
		switch rapid.IntRange(0, 29).Draw(t, "v1pcMapKind") {
		case 0:
			return nil
		case 1:
			return []any{}
		}
		pm := map[string]any{}
		n := rapid.IntRange(0, 3).Draw(t, "nV1Proposers")
		for i := 0; i < n; i++ {
			var key string
			switch rapid.IntRange(0, 15).Draw(t, "v1keyKind") {
			case 0:
				key = "0x1234"
			case 1:
				key = "zz"
			case 2:
				key = strings.TrimPrefix(hexOf(pubKeys[0][:]), "0x")
			default:
				key = hexOf(pubKeys[rapid.IntRange(0, nKeys-1).Draw(t, "v1key")][:])
			}
			pm[key] = genV1Proposer(t)
		}
		return pm
	})
	return m
}

func genQueries(t *rapid.T) []ExecCfgLook {
	n := rapid.IntRange(1, 4).Draw(t, "nQueries")
	qs := make([]ExecCfgLook, 0, n)
	for i := 0; i < n; i++ {
		q := ExecCfgLook{Pubkey: rapid.IntRange(0, nKeys+1).Draw(t, "qPubkey")}
		q.Account.Kind = rapid.SampledFrom([]string{"nil", "plain", "wallet", "wallet"}).Draw(t, "qAccountKind")
		if q.Account.Kind != "nil" {
			q.Account.Key = rapid.IntRange(0, nKeys-1).Draw(t, "qAccountKey")
			q.Account.Name = rapid.SampledFrom([]string{"Account 1", "A1", "", "x/y"}).Draw(t, "qAccountName")
			q.Account.Wallet = rapid.SampledFrom([]string{"Wallet", "W1", "", "Other"}).Draw(t, "qWalletName")
		}
		qs = append(qs, q)
	}
	return qs
}

func genExecConfigCase(t *rapid.T) Case {
	var doc []byte
	switch rapid.IntRange(0, 19).Draw(t, "docKind") {
	case 0:
		doc = []byte(rapid.SampledFrom([]string{"", "null", "[]", "{}", "1", `"x"`, "{", `{"version":2`, `{"version":"v2"}`, `{"version":2}`,
			`{"version":0}`, `{"version":1}`, `{"version":-1}`, `{"version":2,"relays":null,"proposers":null}`}).Draw(t, "literalDoc"))
	case 1, 2, 3, 4, 5, 6:
		doc = []byte(mustJSON(genV1Doc(t)))
	default:
		doc = []byte(mustJSON(genV2Doc(t)))
	}
	return Case{Target: "execconfig", ExecConfig: &ExecConfigCase{Doc: blobOf(doc), Queries: genQueries(t)}}
}

func TestExecConfig(t *testing.T) { prop(t, genExecConfigCase) }

// FuzzExecConfig is the byte-level campaign over the same pipeline.
func FuzzExecConfig(f *testing.F) {
	initKeys()
	k0 := hexOf(pubKeys[0][:])
	seeds := []string{
		`{"version":2,"fee_recipient":"0x0123456789abcdef0123456789abcdef01234567","gas_limit":"30000000","grace":"1000","min_value":"0.1","relays":{"http://relay1.example.com":{"public_key":"0x` + strings.Repeat("ab", 48) + `","fee_recipient":"0x1111111111111111111111111111111111111111","gas_limit":"1","grace":"2","min_value":"0.2"}},"proposers":[{"proposer":"` + k0 + `","fee_recipient":"0x2222222222222222222222222222222222222222","reset_relays":true,"relays":{"relay2.example.com:18550":{"disabled":true}}},{"proposer":"Wallet/.*","gas_limit":"5","relays":{"http://relay1.example.com":{"min_value":"1"}}}]}`,
		`{"default_config":{"fee_recipient":"0x0123456789abcdef0123456789abcdef01234567","gas_limit":"30000000","builder":{"enabled":true,"grace":"10","relays":["http://relay1.example.com"]}},"proposer_config":{"` + k0 + `":{"fee_recipient":"0x1111111111111111111111111111111111111111","builder":{"enabled":false}}}}`,
		`{"version":2}`,
		`{"version":2,"relays":{"a":{}},"proposers":[{"proposer":"0x` + strings.Repeat("00", 48) + `"}]}`,
	}
	for _, s := range seeds {
		f.Add([]byte(s))
	}
	queries := []ExecCfgLook{
		{Account: AccountSpec{Kind: "nil"}, Pubkey: 0},
		{Account: AccountSpec{Kind: "wallet", Key: 1, Name: "Account 1", Wallet: "Wallet"}, Pubkey: 1},
		{Account: AccountSpec{Kind: "plain", Key: 2, Name: "A1"}, Pubkey: nKeys},
		{Account: AccountSpec{Kind: "nil"}, Pubkey: nKeys + 1},
	}
	f.Fuzz(func(t *testing.T, data []byte) {
		if len(data) > 1<<16 {
			t.Skip()
		}
		c := Case{Target: "execconfig", ExecConfig: &ExecConfigCase{Doc: blobOf(data), Queries: queries}}
		check(t, &c)
	})
}

var _ = ev.Tier
