package c16

import (
	"context"
	"errors"
	"fmt"
	"sync"
	"testing"
	"time"

	"github.com/attestantio/go-eth2-client/api"
	apiv1 "github.com/attestantio/go-eth2-client/api/v1"
	"github.com/attestantio/go-eth2-client/spec/phase0"
	aggregator "github.com/attestantio/vouch/services/attestationaggregator/standard"
	"github.com/attestantio/vouch/services/attester"
	attesterstd "github.com/attestantio/vouch/services/attester/standard"
	subscriber "github.com/attestantio/vouch/services/beaconcommitteesubscriber/standard"
	signerstd "github.com/attestantio/vouch/services/signer/standard"
	"github.com/rs/zerolog"
	e2wtypes "github.com/wealdtech/go-eth2-wallet-types/v2"
	"pgregory.net/rapid"

	"verifharness/internal/fakes"
)

// DutySpec is one attester duty as go-eth2-client's decoder can deliver it
// (committee length is at least 1; the client rejects duties outside the epoch).
type DutySpec struct {
	Slot                    uint64 `json:"slot"`
	ValidatorIndex          uint64 `json:"validator_index"`
	CommitteeIndex          uint64 `json:"committee_index"`
	CommitteeLength         uint64 `json:"committee_length"`
	CommitteesAtSlot        uint64 `json:"committees_at_slot"`
	ValidatorCommitteeIndex uint64 `json:"validator_committee_index"`
	Key                     int    `json:"key"` // public key reported in the duty
}

// DutiesCase drives attester.MergeDuties, attester/standard.Attest and
// beaconcommitteesubscriber/standard.Subscribe with one list of duties.
type DutiesCase struct {
	Epoch       uint64     `json:"epoch"`
	CurrentSlot uint64     `json:"current_slot"` // offset inside the epoch
	Ours        []uint64   `json:"ours"`         // validator indices we hold accounts for (account i uses key i)
	Duties      []DutySpec `json:"duties"`
	AttDataErr  bool       `json:"att_data_err,omitempty"`
	ErrKind     string     `json:"err_kind,omitempty"`   // kind of the attestation data / duties failure
	DutiesErr   bool       `json:"duties_err,omitempty"` // the attester duties request of Subscribe fails
	SourceEpoch uint64     `json:"source_epoch"`
	TargetEpoch uint64     `json:"target_epoch"`
	ZeroSigFor  int        `json:"zero_sig_for"` // account position whose signature comes back zero (-1: none)
	SubmitErr   bool       `json:"submit_err,omitempty"`
}

type dutiesProvider struct {
	duties  []DutySpec
	errKind string
	fail    bool
}

func (d dutiesProvider) AttesterDuties(_ context.Context, opts *api.AttesterDutiesOpts) (*api.Response[[]*apiv1.AttesterDuty], error) {
	if opts == nil || len(opts.Indices) == 0 {
		return nil, errors.New("no validator indices specified")
	}
	if d.fail {
		return nil, clientError(d.errKind, "v1/validator/duties/attester")
	}
	return &api.Response[[]*apiv1.AttesterDuty]{Data: buildDuties(d.duties), Metadata: map[string]any{}}, nil
}

func buildDuties(specs []DutySpec) []*apiv1.AttesterDuty {
	res := make([]*apiv1.AttesterDuty, 0, len(specs))
	for _, s := range specs {
		res = append(res, &apiv1.AttesterDuty{
			PubKey:                  pubkeyByIdx(s.Key),
			Slot:                    phase0.Slot(s.Slot),
			ValidatorIndex:          phase0.ValidatorIndex(s.ValidatorIndex),
			CommitteeIndex:          phase0.CommitteeIndex(s.CommitteeIndex),
			CommitteeLength:         s.CommitteeLength,
			CommitteesAtSlot:        s.CommitteesAtSlot,
			ValidatorCommitteeIndex: s.ValidatorCommitteeIndex,
		})
	}
	return res
}

type attDataProvider struct{ c *DutiesCase }

func (a attDataProvider) AttestationData(_ context.Context, opts *api.AttestationDataOpts) (*api.Response[*phase0.AttestationData], error) {
	if a.c.AttDataErr {
		return nil, clientError(a.c.ErrKind, "v1/validator/attestation_data")
	}
	// What the client library guarantees: slot and committee index echo the request, source and
	// target are present.
	return &api.Response[*phase0.AttestationData]{Data: &phase0.AttestationData{
		Slot:            opts.Slot,
		Index:           opts.CommitteeIndex,
		BeaconBlockRoot: phase0.Root{0x01},
		Source:          &phase0.Checkpoint{Epoch: phase0.Epoch(a.c.SourceEpoch), Root: phase0.Root{0x02}},
		Target:          &phase0.Checkpoint{Epoch: phase0.Epoch(a.c.TargetEpoch), Root: phase0.Root{0x03}},
	}, Metadata: map[string]any{}}, nil
}

type attSigner struct{ zeroFor int }

func (s attSigner) SignBeaconAttestations(_ context.Context, accounts []e2wtypes.Account, _ phase0.Slot, _ []phase0.CommitteeIndex,
	_ phase0.Root, _ phase0.Epoch, _ phase0.Root, _ phase0.Epoch, _ phase0.Root) ([]phase0.BLSSignature, error) {
	if len(accounts) == 0 {
		return nil, errors.New("no accounts supplied")
	}
	sigs := make([]phase0.BLSSignature, len(accounts))
	for i, a := range accounts {
		if pa, ok := a.(*plainAccount); ok && pa.idx == s.zeroFor {
			continue
		}
		sigs[i] = randaoOf(0x88)
	}
	return sigs, nil
}

type attSubmitter struct {
	fail bool
	mu   sync.Mutex
	n    int
}

func (s *attSubmitter) SubmitAttestations(_ context.Context, atts []*phase0.Attestation) error {
	s.mu.Lock()
	s.n += len(atts)
	s.mu.Unlock()
	if s.fail {
		return errors.New("scripted submit failure")
	}
	return nil
}

type subsSubmitter struct{ done chan struct{} }

func (s *subsSubmitter) SubmitBeaconCommitteeSubscriptions(context.Context, []*apiv1.BeaconCommitteeSubscription) error {
	select {
	case s.done <- struct{}{}:
	default:
	}
	return nil
}

type nullAggProvider struct{}

func (nullAggProvider) AggregateAttestation(context.Context, *api.AggregateAttestationOpts) (*api.Response[*phase0.Attestation], error) {
	return nil, errors.New("not used")
}

type nullAggSubmitter struct{}

func (nullAggSubmitter) SubmitAggregateAttestations(context.Context, []*phase0.SignedAggregateAndProof) error {
	return nil
}

func runDuties(c *DutiesCase, out *outcome) {
	initKeys()
	ctx, cancel := context.WithCancel(context.Background())
	defer cancel()
	const spe = 32
	clock := fakes.NewVClock(time.Unix(1600000000, 0), 12*time.Second, spe)
	clock.SetSlot(c.Epoch*spe+c.CurrentSlot, time.Second)

	accounts := map[phase0.ValidatorIndex]e2wtypes.Account{}
	for i, idx := range c.Ours {
		if i >= nKeys {
			break
		}
		accounts[phase0.ValidatorIndex(idx)] = &plainAccount{idx: i, name: fmt.Sprintf("Account %d", i)}
	}
	accProvider := accountsDouble{accounts: accounts}

	// 1. MergeDuties
	var merged []*attester.Duty
	var merr error
	out.addPanic(guard(func() { merged, merr = attester.MergeDuties(ctx, buildDuties(c.Duties)) }))
	if len(out.panics) > 0 {
		return
	}
	if merr != nil {
		out.label("duties:merge-error")
	}
	out.nontrivial = len(merged) > 0
	classifyDuties(c, out)

	// 2. Attest for every merged duty, with one attester service (so that its per-epoch
	// bookkeeping sees the whole epoch).
	submit := &attSubmitter{fail: c.SubmitErr}
	att, err := attesterstd.New(ctx,
		attesterstd.WithLogLevel(zerolog.Disabled), attesterstd.WithProcessConcurrency(2), attesterstd.WithChainTime(clock),
		attesterstd.WithSpecProvider(specProvider{slotsPerEpoch: spe}), attesterstd.WithAttestationDataProvider(attDataProvider{c}),
		attesterstd.WithAttestationsSubmitter(submit), attesterstd.WithMonitor(nullMonitor),
		attesterstd.WithValidatingAccountsProvider(accProvider), attesterstd.WithBeaconAttestationsSigner(attSigner{zeroFor: c.ZeroSigFor}),
	)
	if err != nil {
		out.harness = "cannot construct attester: " + err.Error()
		return
	}
	for _, d := range merged {
		duty := d
		_ = duty.String()
		_ = duty.Tuples()
		if uint64(duty.Slot()) < c.Epoch*spe || uint64(duty.Slot()) > c.Epoch*spe+spe-1 {
			// The attester only ever sees duties the controller has filtered to the slots of the
			// requested epoch (scheduleAttestations); MergeDuties and Subscribe see the unfiltered list.
			out.label("duties:outside-epoch-not-attested")
			continue
		}
		out.addPanic(guard(func() {
			atts, err := att.Attest(ctx, duty)
			switch {
			case err != nil:
				out.label("duties:attest-error")
			case len(atts) > 0:
				out.label("duties:attested")
			}
		}))
	}

	// 3. Subscribe, with the real aggregator and the real signer so that a duty for a validator
	// we hold no account for is treated exactly as in production.
	if len(accounts) == 0 {
		return
	}
	signer, err := signerstd.New(ctx, signerstd.WithLogLevel(zerolog.Disabled), signerstd.WithMonitor(nullMonitor), signerstd.WithClientMonitor(nullMonitor),
		signerstd.WithSpecProvider(specProvider{slotsPerEpoch: spe}), signerstd.WithDomainProvider(domainProvider{}))
	if err != nil {
		out.harness = "cannot construct signer: " + err.Error()
		return
	}
	agg, err := aggregator.New(ctx, aggregator.WithLogLevel(zerolog.Disabled), aggregator.WithSpecProvider(specProvider{slotsPerEpoch: spe}),
		aggregator.WithMonitor(nullMonitor), aggregator.WithValidatingAccountsProvider(accProvider), aggregator.WithAggregateAttestationProvider(nullAggProvider{}),
		aggregator.WithAggregateAttestationsSubmitter(nullAggSubmitter{}), aggregator.WithSlotSelectionSigner(signer), aggregator.WithAggregateAndProofSigner(signer),
		aggregator.WithChainTime(clock))
	if err != nil {
		out.harness = "cannot construct attestation aggregator: " + err.Error()
		return
	}
	subSubmit := &subsSubmitter{done: make(chan struct{}, 1)}
	sub, err := subscriber.New(ctx, subscriber.WithLogLevel(zerolog.Disabled), subscriber.WithProcessConcurrency(2), subscriber.WithMonitor(nullMonitor),
		subscriber.WithChainTimeService(clock), subscriber.WithAttesterDutiesProvider(dutiesProvider{duties: c.Duties, errKind: c.ErrKind, fail: c.DutiesErr}),
		subscriber.WithAttestationAggregator(agg), subscriber.WithBeaconCommitteeSubmitter(subSubmit))
	if err != nil {
		out.harness = "cannot construct beacon committee subscriber: " + err.Error()
		return
	}
	out.addPanic(guard(func() {
		info, err := sub.Subscribe(ctx, phase0.Epoch(c.Epoch), accounts)
		switch {
		case err != nil:
			out.label("duties:subscribe-error")
		case len(info) > 0:
			out.label("duties:subscribed")
		default:
			out.label("duties:subscribe-empty")
		}
	}))
	// Subscribe submits on a goroutine of its own: wait for it (it may legitimately decide not to submit).
	select {
	case <-subSubmit.done:
	case <-time.After(4 * time.Millisecond):
	}
}

func classifyDuties(c *DutiesCase, out *outcome) {
	if len(c.Duties) > 1 {
		lo, hi := c.Duties[0].Slot, c.Duties[0].Slot
		for _, d := range c.Duties {
			lo, hi = min(lo, d.Slot), max(hi, d.Slot)
		}
		switch {
		case lo == 0 && hi == ^uint64(0):
			out.label("duties:slots-span-whole-range")
		case hi-lo >= 1<<63:
			out.label("duties:slots-span-over-2^63")
		case hi-lo >= 32:
			out.label("duties:slots-span-several-epochs")
		}
	}
	ours := map[uint64]bool{}
	for _, o := range c.Ours {
		ours[o] = true
	}
	type key struct{ slot, v uint64 }
	seen := map[key]bool{}
	seenV := map[uint64]bool{}
	for _, d := range c.Duties {
		if !ours[d.ValidatorIndex] {
			out.label("duties:validator-not-ours")
		}
		if seen[key{d.Slot, d.ValidatorIndex}] {
			out.label("duties:duplicate-in-slot")
		} else if seenV[d.ValidatorIndex] {
			out.label("duties:duplicate-in-epoch")
		}
		seen[key{d.Slot, d.ValidatorIndex}] = true
		seenV[d.ValidatorIndex] = true
		if d.ValidatorCommitteeIndex >= d.CommitteeLength {
			out.label("duties:position-beyond-committee")
		}
		if d.CommitteeLength > 1<<32 {
			out.label("duties:huge-committee-length")
		}
		if d.CommitteesAtSlot == 0 {
			out.label("duties:zero-committees-at-slot")
		}
		if d.CommitteeIndex >= d.CommitteesAtSlot {
			out.label("duties:committee-index-out-of-range")
		}
	}
}

// ---- generator ------------------------------------------------------------------

// Committee lengths: the decoder refuses 0.  Values between 2^21 and 2^61 would make vouch try
// to allocate between megabytes and exabytes for an aggregation bitlist; those that the Go
// runtime might actually try to satisfy are not generated, to protect the shared machine.
var committeeLengths = []uint64{1, 1, 2, 64, 128, 2048, 2049, 1 << 20, 1 << 62, 1<<63 + 5, ^uint64(0)}

// genCommitteeLength: any boundary class except 0 (the decoder refuses it) and except the range
// whose aggregation bitlist the Go runtime might really try to allocate (see committeeLengths).
func genCommitteeLength(t *rapid.T) uint64 {
	if rapid.Bool().Draw(t, "committeeLengthKnown") {
		return rapid.SampledFrom(committeeLengths).Draw(t, "committeeLength")
	}
	v := genU64(t, "committeeLengthBoundary")
	if v == 0 || (v > 1<<20 && v < 1<<62) {
		return 1
	}
	return v
}

func genDutiesCase(t *rapid.T) Case {
	c := &DutiesCase{
		// the epoch is vouch's own (from its clock): its slots stay below 2^63
		Epoch: rapid.SampledFrom([]uint64{0, 0, 0, 1, 2, 3, 1000, 1<<31 - 1, 1 << 32, 1 << 40, 1<<58 - 2, 1<<58 - 1}).Draw(t, "epoch"),
		CurrentSlot: rapid.Uint64Range(0, 31).Draw(t, "currentSlot"),
		SourceEpoch: 0,
		ZeroSigFor:  rapid.SampledFrom([]int{-1, -1, -1, 0, 1}).Draw(t, "zeroSigFor"),
		AttDataErr:  rapid.IntRange(0, 11).Draw(t, "attDataErr") == 0,
		DutiesErr:   rapid.IntRange(0, 15).Draw(t, "dutiesErr") == 0,
		ErrKind:     genErrKind(t, "errKind"),
		SubmitErr:   rapid.IntRange(0, 11).Draw(t, "submitErr") == 0,
	}
	// attestation data epochs around the duty epoch (the attester validates them) or anywhere
	c.TargetEpoch = c.Epoch
	switch rapid.IntRange(0, 11).Draw(t, "epochsKind") {
	case 0:
		c.TargetEpoch = c.Epoch + 1
	case 1:
		c.SourceEpoch = c.Epoch + 1
	case 2:
		c.TargetEpoch = c.Epoch - 1
	case 3:
		c.SourceEpoch, c.TargetEpoch = genU64(t, "sourceEpoch"), genU64(t, "targetEpoch")
	}
	// our validators: indices from the boundary classes, so that duties drawn from the same classes hit them
	pool := []uint64{0, 1, 1 << 32, 1<<63 - 1, ^uint64(0), 1 << 31, 7}
	nOurs := rapid.IntRange(0, 3).Draw(t, "nOurs")
	for i := 0; i < nOurs; i++ {
		c.Ours = append(c.Ours, pool[i])
	}
	// Slots: inside the epoch (all the client library's HTTP call lets through) or anywhere in the
	// range (MergeDuties and Subscribe do not filter, the controller does); one list mixes both.
	wild := rapid.IntRange(0, 2).Draw(t, "wildSlots") > 0
	n := rapid.IntRange(0, 6).Draw(t, "nDuties")
	for i := 0; i < n; i++ {
		d := DutySpec{
			Slot:             c.Epoch*32 + rapid.SampledFrom([]uint64{0, 1, 1, 2, 31}).Draw(t, "slotInEpoch"),
			ValidatorIndex:   rapid.SampledFrom(pool).Draw(t, "dutyValidator"),
			CommitteeIndex:   rapid.SampledFrom([]uint64{0, 0, 1, 63, 64, ^uint64(0)}).Draw(t, "committeeIndex"),
			CommitteeLength:  genCommitteeLength(t),
			CommitteesAtSlot: rapid.SampledFrom([]uint64{0, 1, 4, 64, ^uint64(0)}).Draw(t, "committeesAtSlot"),
			Key:              rapid.IntRange(0, nKeys+1).Draw(t, "dutyKey"),
		}
		if wild && rapid.Bool().Draw(t, "wildSlot") {
			d.Slot = genU64(t, "slotBoundary")
		}
		if rapid.Bool().Draw(t, "wildFields") {
			d.ValidatorIndex = genU64(t, "validatorBoundary")
			d.CommitteeIndex = genU64(t, "committeeIndexBoundary")
			d.CommitteesAtSlot = genU64(t, "committeesAtSlotBoundary")
		}
		d.ValidatorCommitteeIndex = rapid.SampledFrom([]uint64{0, 0, 1, d.CommitteeLength - 1, d.CommitteeLength, d.CommitteeLength + 1,
			1 << 31, 1 << 32, 1<<63 - 1, 1 << 63, ^uint64(0) - 1, ^uint64(0)}).Draw(t, "position")
		c.Duties = append(c.Duties, d)
	}
	return Case{Target: "duties", Duties: c}
}

func TestDuties(t *testing.T) { prop(t, genDutiesCase) }
