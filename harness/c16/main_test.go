package c16

import (
	"os"
	"testing"
	"time"

	"verifharness/internal/ev"
)

func TestMain(m *testing.M) {
	if os.Getenv(childEnv) == "1" {
		// A supervised child may be killed by a panic on a goroutine that vouch
		// started itself; keep the evidence file reasonably fresh for that case.
		go func() {
			for {
				time.Sleep(2 * time.Second)
				ev.Flush()
			}
		}()
	}
	ev.Main(m, "C16")
}
