package c16

import (
	"encoding/json"
	"errors"
	"fmt"
	"math/big"
	"sort"
	"strconv"
	"strings"
	"sync/atomic"

	"github.com/attestantio/go-eth2-client/api"
	apiv1bellatrix "github.com/attestantio/go-eth2-client/api/v1/bellatrix"
	apiv1capella "github.com/attestantio/go-eth2-client/api/v1/capella"
	apiv1deneb "github.com/attestantio/go-eth2-client/api/v1/deneb"
	"github.com/attestantio/go-eth2-client/spec"
	"github.com/attestantio/go-eth2-client/spec/altair"
	"github.com/attestantio/go-eth2-client/spec/bellatrix"
	"github.com/attestantio/go-eth2-client/spec/capella"
	"github.com/attestantio/go-eth2-client/spec/deneb"
	"github.com/attestantio/go-eth2-client/spec/phase0"
	"pgregory.net/rapid"
)

// This file builds block JSON the way a beacon node sends it, lets a case mutate
// it, and then decodes it with the very types (and the same envelope handling)
// go-eth2-client's HTTP client uses.  What does not decode is not delivered to
// vouch: the provider double then returns the decoder's error, as the client
// library would.

// libraryPanics counts responses on which the client library's own post-decoding
// checks panic.
var libraryPanics atomic.Int64

var versions = []string{"phase0", "altair", "bellatrix", "capella", "deneb"}

func dataVersion(v string) spec.DataVersion {
	switch v {
	case "phase0":
		return spec.DataVersionPhase0
	case "altair":
		return spec.DataVersionAltair
	case "bellatrix":
		return spec.DataVersionBellatrix
	case "capella":
		return spec.DataVersionCapella
	case "deneb":
		return spec.DataVersionDeneb
	}
	return spec.DataVersionUnknown
}

func hexN(n int, b byte) string { return "0x" + strings.Repeat(fmt.Sprintf("%02x", b), n) }

// Mutation changes one node of a JSON tree.  Path indexes the deterministic
// (sorted-key, depth-first) enumeration of nodes, modulo its length.
type Mutation struct {
	Path int    `json:"path"`
	Op   string `json:"op"`            // delete | null | zero | empty | max | set
	Val  string `json:"val,omitempty"` // set: the decimal text a numeric field is set to
}

var mutationOps = []string{"delete", "null", "zero", "zero", "empty", "max", "set", "set", "set"}

func genMutations(t *rapid.T, label string) []Mutation {
	n := rapid.SampledFrom([]int{0, 0, 0, 0, 0, 1, 1, 2, 3, 4}).Draw(t, label+"N")
	var ms []Mutation
	for i := 0; i < n; i++ {
		m := Mutation{Path: rapid.IntRange(0, 400).Draw(t, label+"Path"), Op: rapid.SampledFrom(mutationOps).Draw(t, label+"Op")}
		if m.Op == "set" {
			m.Val = rapid.SampledFrom(boundaryStrings).Draw(t, label+"Val")
		}
		ms = append(ms, m)
	}
	return ms
}

type nodeRef struct {
	parent any // map[string]any or []any
	key    string
	idx    int
	inList bool
}

func enumerate(v any, refs *[]nodeRef) {
	switch x := v.(type) {
	case map[string]any:
		keys := make([]string, 0, len(x))
		for k := range x {
			keys = append(keys, k)
		}
		sort.Strings(keys)
		for _, k := range keys {
			*refs = append(*refs, nodeRef{parent: x, key: k})
			enumerate(x[k], refs)
		}
	case []any:
		for i := range x {
			*refs = append(*refs, nodeRef{parent: x, idx: i, inList: true})
			enumerate(x[i], refs)
		}
	}
}

func zeroOf(v any) any {
	switch x := v.(type) {
	case string:
		if strings.HasPrefix(x, "0x") {
			return "0x" + strings.Repeat("0", len(x)-2)
		}
		return "0"
	case []any:
		return []any{}
	case map[string]any:
		return map[string]any{}
	case bool:
		return false
	default:
		return 0
	}
}

// mutate applies the mutations in place and returns labels describing them.
// Elements of lists are never removed or nulled: a null element inside an SSZ
// list is accepted by go-eth2-client's decoders but then crashes inside that
// library's own accessors (HashTreeRoot, Slot), which is not vouch's code.
func mutate(root map[string]any, ms []Mutation) {
	for _, m := range ms {
		var refs []nodeRef
		enumerate(root, &refs)
		if len(refs) == 0 {
			return
		}
		r := refs[m.Path%len(refs)]
		if m.Op == "set" {
			// a numeric field: the first decimal-string node at or after the path
			for k := 0; k < len(refs); k++ {
				c := refs[(m.Path+k)%len(refs)]
				var cur any
				if c.inList {
					cur = c.parent.([]any)[c.idx]
				} else {
					cur = c.parent.(map[string]any)[c.key]
				}
				if str, isStr := cur.(string); isStr && !strings.HasPrefix(str, "0x") && str != "" {
					if c.inList {
						c.parent.([]any)[c.idx] = m.Val
					} else {
						c.parent.(map[string]any)[c.key] = m.Val
					}
					break
				}
			}
			continue
		}
		if r.inList {
			l := r.parent.([]any)
			switch m.Op {
			case "zero":
				l[r.idx] = zeroOf(l[r.idx])
			case "max":
				if _, isStr := l[r.idx].(string); isStr {
					l[r.idx] = "18446744073709551615"
				}
			}
			continue
		}
		mp := r.parent.(map[string]any)
		switch m.Op {
		case "delete":
			delete(mp, r.key)
		case "null":
			mp[r.key] = nil
		case "zero":
			mp[r.key] = zeroOf(mp[r.key])
		case "empty":
			if _, isStr := mp[r.key].(string); isStr {
				mp[r.key] = ""
			}
		case "max":
			if s, isStr := mp[r.key].(string); isStr && !strings.HasPrefix(s, "0x") {
				mp[r.key] = "18446744073709551615"
			}
		}
	}
}

// BlockParams are the few values of a block that matter to vouch.
type BlockParams struct {
	Slot            uint64 `json:"slot"`
	ProposerIndex   uint64 `json:"proposer_index"`
	Randao          byte   `json:"randao"`   // byte repeated 96 times
	Graffiti        byte   `json:"graffiti"` // byte repeated 32 times
	FeeRecipient    byte   `json:"fee_recipient"`
	PayloadState    byte   `json:"payload_state"` // state root byte of the execution payload (0 = zero root)
	BlockNumber     uint64 `json:"block_number"`
	NAttestations   int    `json:"n_attestations"`
	AttestationBits string `json:"attestation_bits,omitempty"` // hex, default 0x03
}

func attestationJSON(p *BlockParams, i int) map[string]any {
	bits := p.AttestationBits
	if bits == "" {
		bits = "0x03"
	}
	slot := uint64(0)
	if p.Slot > uint64(i)+1 {
		slot = p.Slot - uint64(i) - 1
	}
	return map[string]any{
		"aggregation_bits": bits,
		"data": map[string]any{
			"slot":              strconv.FormatUint(slot, 10),
			"index":             strconv.Itoa(i),
			"beacon_block_root": hexN(32, 0x41),
			"source":            map[string]any{"epoch": "1", "root": hexN(32, 0x42)},
			"target":            map[string]any{"epoch": "2", "root": hexN(32, 0x43)},
		},
		"signature": hexN(96, 0x44),
	}
}

func payloadJSON(version string, header bool, p *BlockParams) map[string]any {
	m := map[string]any{
		"parent_hash":      hexN(32, 0x51),
		"fee_recipient":    hexN(20, p.FeeRecipient),
		"state_root":       hexN(32, p.PayloadState),
		"receipts_root":    hexN(32, 0x53),
		"logs_bloom":       hexN(256, 0x00),
		"prev_randao":      hexN(32, 0x54),
		"block_number":     strconv.FormatUint(p.BlockNumber, 10),
		"gas_limit":        "30000000",
		"gas_used":         "1",
		"timestamp":        "1700000000",
		"extra_data":       "0x",
		"base_fee_per_gas": "7",
		"block_hash":       hexN(32, 0x55),
	}
	if header {
		m["transactions_root"] = hexN(32, 0x56)
	} else {
		m["transactions"] = []any{"0x01"}
	}
	if version == "capella" || version == "deneb" {
		if header {
			m["withdrawals_root"] = hexN(32, 0x57)
		} else {
			m["withdrawals"] = []any{}
		}
	}
	if version == "deneb" {
		m["blob_gas_used"] = "0"
		m["excess_blob_gas"] = "0"
	}
	return m
}

// blockJSON builds the JSON of a (blinded) beacon block of the given version.
func blockJSON(version string, blinded bool, p *BlockParams) map[string]any {
	atts := []any{}
	for i := 0; i < p.NAttestations; i++ {
		atts = append(atts, attestationJSON(p, i))
	}
	body := map[string]any{
		"randao_reveal":      hexN(96, p.Randao),
		"eth1_data":          map[string]any{"deposit_root": hexN(32, 0x31), "deposit_count": "1", "block_hash": hexN(32, 0x32)},
		"graffiti":           hexN(32, p.Graffiti),
		"proposer_slashings": []any{},
		"attester_slashings": []any{},
		"attestations":       atts,
		"deposits":           []any{},
		"voluntary_exits":    []any{},
	}
	if version != "phase0" {
		body["sync_aggregate"] = map[string]any{"sync_committee_bits": hexN(64, 0x01), "sync_committee_signature": hexN(96, 0x33)}
	}
	if version == "bellatrix" || version == "capella" || version == "deneb" {
		if blinded {
			body["execution_payload_header"] = payloadJSON(version, true, p)
		} else {
			body["execution_payload"] = payloadJSON(version, false, p)
		}
	}
	if version == "capella" || version == "deneb" {
		body["bls_to_execution_changes"] = []any{}
	}
	if version == "deneb" {
		body["blob_kzg_commitments"] = []any{}
	}
	return map[string]any{
		"slot":           strconv.FormatUint(p.Slot, 10),
		"proposer_index": strconv.FormatUint(p.ProposerIndex, 10),
		"parent_root":    hexN(32, 0x21),
		"state_root":     hexN(32, 0x22),
		"body":           body,
	}
}

// proposalDataJSON is the "data" member of a /eth/v3/validator/blocks response.
func proposalDataJSON(version string, blinded bool, p *BlockParams) map[string]any {
	if version == "phase0" || version == "altair" {
		blinded = false
	}
	b := blockJSON(version, blinded, p)
	if version == "deneb" && !blinded {
		return map[string]any{"block": b, "kzg_proofs": []any{}, "blobs": []any{}}
	}
	return b
}

// unmarshalData replicates decodeJSONResponse of go-eth2-client for the "data"
// member: envelope "data" unmarshals raw into the pointer (JSON null makes the
// pointer nil), "missing" leaves the freshly allocated empty struct, "null" is
// {"data":null}.
func unmarshalData[T any](envelope string, raw []byte, empty *T) (*T, error) {
	data := empty
	switch envelope {
	case "missing":
		return data, nil
	case "null":
		raw = []byte("null")
	}
	if err := json.Unmarshal(raw, &data); err != nil {
		return nil, errors.Join(errors.New("failed to unmarshal data"), err)
	}
	return data, nil
}

// ProposalSpec describes what one beacon node answers to a proposal request.
type ProposalSpec struct {
	Outcome        string      `json:"outcome"` // ok | one of errKinds
	Version        string      `json:"version"`
	Blinded        bool        `json:"blinded"`
	ConsensusValue string      `json:"consensus_value"`
	ExecutionValue string      `json:"execution_value"`
	Envelope       string      `json:"envelope"` // data | null | missing
	SlotDelta      int         `json:"slot_delta,omitempty"`
	WrongRandao    bool        `json:"wrong_randao,omitempty"`
	Params         BlockParams `json:"params"`
	Muts           []Mutation  `json:"muts,omitempty"`
}

func genBlockParams(t *rapid.T, slot uint64, randao byte) BlockParams {
	return BlockParams{
		Slot:          slot,
		ProposerIndex: genU64(t, "proposerIndex"),
		Randao:        randao,
		Graffiti:      rapid.SampledFrom([]byte{0, 0x20, 0x7b, 0xff}).Draw(t, "blockGraffiti"),
		FeeRecipient:  rapid.SampledFrom([]byte{0, 0x11, 0x11, 0x11, 0xff}).Draw(t, "feeRecipient"),
		PayloadState:  rapid.SampledFrom([]byte{0, 0x52, 0x52}).Draw(t, "payloadState"),
		BlockNumber:   genU64(t, "blockNumber"),
		NAttestations: rapid.SampledFrom([]int{0, 0, 1, 2}).Draw(t, "nAtt"),
		AttestationBits: rapid.SampledFrom([]string{"", "", "0x", "0x00", "0x01", "0xffff"}).Draw(t, "attBits"),
	}
}

func genValue(t *rapid.T, label string) string {
	if rapid.IntRange(0, 9).Draw(t, label+"ok") > 0 {
		return rapid.SampledFrom([]string{"0", "1", "123456789", "-1", "-999999999999999999999", "18446744073709551616",
			"115792089237316195423570985008687907853269984665640564039457584007913129639936", ""}).Draw(t, label+"v")
	}
	return rapid.SampledFrom([]string{"0", "0", "1", "123456789", "-1", "-999999999999999999999", "18446744073709551616",
		"115792089237316195423570985008687907853269984665640564039457584007913129639936", "x", "", "1e9", " 5"}).Draw(t, label)
}

func genProposalSpec(t *rapid.T, slot uint64, randao byte) ProposalSpec {
	s := ProposalSpec{
		Outcome:        "ok",
		Version:        rapid.SampledFrom(versions).Draw(t, "proposalVersion"),
		Blinded:        rapid.IntRange(0, 1).Draw(t, "blinded") == 0,
		ConsensusValue: genValue(t, "consensusValue"),
		ExecutionValue: genValue(t, "executionValue"),
		Envelope:       rapid.SampledFrom([]string{"data", "data", "data", "data", "data", "data", "data", "data", "data", "data", "data", "data", "data", "data", "null", "missing"}).Draw(t, "envelope"),
		Params:         genBlockParams(t, slot, randao),
		Muts:           genMutations(t, "proposalMut"),
	}
	if rapid.IntRange(0, 9).Draw(t, "proposalFails") == 0 {
		s.Outcome = genErrKind(t, "proposalErrKind")
	}
	if rapid.IntRange(0, 19).Draw(t, "slotDeltaOn") == 0 {
		s.SlotDelta = rapid.SampledFrom([]int{-1, 1}).Draw(t, "slotDelta")
	}
	s.WrongRandao = rapid.IntRange(0, 29).Draw(t, "wrongRandao") == 0
	return s
}

// buildProposal produces what go-eth2-client's Proposal() would return for the
// scripted response: the decoded proposal, or the error of the decoder or of
// the client's own consistency checks (slot, RANDAO reveal).
func buildProposal(s *ProposalSpec, optsSlot phase0.Slot, optsRandao phase0.BLSSignature) (*api.VersionedProposal, error) {
	if s.Outcome != "ok" {
		return nil, clientError(s.Outcome, "v3/validator/blocks")
	}
	p := s.Params
	p.Slot = uint64(int64(p.Slot) + int64(s.SlotDelta))
	if s.WrongRandao {
		p.Randao ^= 0x5a
	}
	tree := proposalDataJSON(s.Version, s.Blinded, &p)
	mutate(tree, s.Muts)
	raw, err := json.Marshal(tree)
	if err != nil {
		return nil, err
	}
	res := &api.VersionedProposal{Version: dataVersion(s.Version), Blinded: s.Blinded}
	var ok bool
	if res.ConsensusValue, ok = new(big.Int).SetString(s.ConsensusValue, 10); !ok {
		if s.ConsensusValue != "" {
			return nil, fmt.Errorf("proposal header Eth-Consensus-Block-Value %s not a valid integer", s.ConsensusValue)
		}
		res.ConsensusValue = big.NewInt(0) // header absent
	}
	if res.ExecutionValue, ok = new(big.Int).SetString(s.ExecutionValue, 10); !ok {
		if s.ExecutionValue != "" {
			return nil, fmt.Errorf("proposal header Eth-Execution-Payload-Value %s not a valid integer", s.ExecutionValue)
		}
		res.ExecutionValue = big.NewInt(0)
	}
	switch s.Version {
	case "phase0":
		res.Phase0, err = unmarshalData(s.Envelope, raw, &phase0.BeaconBlock{})
	case "altair":
		res.Altair, err = unmarshalData(s.Envelope, raw, &altair.BeaconBlock{})
	case "bellatrix":
		if s.Blinded {
			res.BellatrixBlinded, err = unmarshalData(s.Envelope, raw, &apiv1bellatrix.BlindedBeaconBlock{})
		} else {
			res.Bellatrix, err = unmarshalData(s.Envelope, raw, &bellatrix.BeaconBlock{})
		}
	case "capella":
		if s.Blinded {
			res.CapellaBlinded, err = unmarshalData(s.Envelope, raw, &apiv1capella.BlindedBeaconBlock{})
		} else {
			res.Capella, err = unmarshalData(s.Envelope, raw, &capella.BeaconBlock{})
		}
	case "deneb":
		if s.Blinded {
			res.DenebBlinded, err = unmarshalData(s.Envelope, raw, &apiv1deneb.BlindedBeaconBlock{})
		} else {
			res.Deneb, err = unmarshalData(s.Envelope, raw, &apiv1deneb.BlockContents{})
		}
	default:
		err = fmt.Errorf("unsupported version %s", s.Version)
	}
	if err != nil {
		return nil, err
	}
	// The client's own checks after decoding.  go-eth2-client v0.21.11 itself panics in
	// VersionedProposal.Slot() for {"version":"deneb","data":null} (proposalPresent dereferences the
	// nil Deneb container); that crash is inside the client library, before vouch sees anything, so
	// such a response is treated as not delivered.
	var blockSlot phase0.Slot
	if rec := guard(func() { blockSlot, err = res.Slot() }); rec != nil {
		libraryPanics.Add(1)
		return nil, errors.New("client library panicked while checking the response: " + rec.Value)
	}
	if err != nil {
		return nil, err
	}
	if blockSlot != optsSlot {
		return nil, fmt.Errorf("beacon block proposal for slot %d; expected %d", blockSlot, optsSlot)
	}
	var blockRandao phase0.BLSSignature
	if rec := guard(func() { blockRandao, err = res.RandaoReveal() }); rec != nil {
		libraryPanics.Add(1)
		return nil, errors.New("client library panicked while checking the response: " + rec.Value)
	}
	if err != nil {
		return nil, err
	}
	if blockRandao != optsRandao {
		return nil, errors.New("beacon block proposal has unexpected RANDAO reveal")
	}
	// Every proposal vouch accepts is hashed with the client library's own accessors before it is
	// signed.  Where go-eth2-client's decoder accepted a value that its own HashTreeRoot/accessors
	// panic on (e.g. a Deneb body with "execution_payload": null), the crash is inside the library
	// on a value the library produced; such a response is treated as not delivered (counted).
	if rec := guard(func() {
		_, _ = res.BodyRoot()
		_, _ = res.ParentRoot()
		_, _ = res.StateRoot()
		_, _ = res.FeeRecipient()
		_ = res.String()
	}); rec != nil {
		libraryPanics.Add(1)
		return nil, errors.New("client library cannot hash the proposal it decoded: " + rec.Value)
	}
	return res, nil
}

// SignedBlockSpec describes the answer to a SignedBeaconBlock request.
type SignedBlockSpec struct {
	Outcome  string      `json:"outcome"` // ok | one of errKinds
	Version  string      `json:"version"`
	Envelope string      `json:"envelope"`
	Params   BlockParams `json:"params"`
	Muts     []Mutation  `json:"muts,omitempty"`
}

func genBlockOutcome(t *rapid.T) string {
	if rapid.IntRange(0, 3).Draw(t, "blockFails") == 0 {
		return genErrKind(t, "blockErrKind")
	}
	return "ok"
}

func genSignedBlockSpec(t *rapid.T, slot uint64) SignedBlockSpec {
	return SignedBlockSpec{
		Outcome:  genBlockOutcome(t),
		Version:  rapid.SampledFrom(versions).Draw(t, "blockVersion"),
		Envelope: rapid.SampledFrom([]string{"data", "data", "data", "data", "data", "data", "data", "data", "null", "missing"}).Draw(t, "blockEnvelope"),
		Params:   genBlockParams(t, slot, 0x61),
		Muts:     genMutations(t, "blockMut"),
	}
}

// buildSignedBlock produces what go-eth2-client's SignedBeaconBlock() returns
// (JSON path): it has no consistency checks after decoding.
func buildSignedBlock(s *SignedBlockSpec) (*spec.VersionedSignedBeaconBlock, error) {
	if s.Outcome != "ok" {
		return nil, clientError(s.Outcome, "v2/beacon/blocks")
	}
	p := s.Params
	tree := map[string]any{"message": blockJSON(s.Version, false, &p), "signature": hexN(96, 0x71)}
	mutate(tree, s.Muts)
	raw, err := json.Marshal(tree)
	if err != nil {
		return nil, err
	}
	res := &spec.VersionedSignedBeaconBlock{Version: dataVersion(s.Version)}
	switch s.Version {
	case "phase0":
		res.Phase0, err = unmarshalData(s.Envelope, raw, &phase0.SignedBeaconBlock{})
	case "altair":
		res.Altair, err = unmarshalData(s.Envelope, raw, &altair.SignedBeaconBlock{})
	case "bellatrix":
		res.Bellatrix, err = unmarshalData(s.Envelope, raw, &bellatrix.SignedBeaconBlock{})
	case "capella":
		res.Capella, err = unmarshalData(s.Envelope, raw, &capella.SignedBeaconBlock{})
	case "deneb":
		res.Deneb, err = unmarshalData(s.Envelope, raw, &deneb.SignedBeaconBlock{})
	default:
		err = fmt.Errorf("unhandled version %s", s.Version)
	}
	if err != nil {
		return nil, err
	}
	return res, nil
}

// libraryCanHash reports whether go-eth2-client's own accessors work on a block it
// decoded (they panic, for instance, on a Deneb body with "execution_payload": null).
func libraryCanHash(b *spec.VersionedSignedBeaconBlock) bool {
	return guard(func() {
		_, _ = b.Slot()
		_, _ = b.Attestations()
		_, _ = b.ParentRoot()
		_, _ = b.Root()
	}) == nil
}

func randaoOf(b byte) phase0.BLSSignature {
	var s phase0.BLSSignature
	for i := range s {
		s[i] = b
	}
	return s
}
