package c16

import (
	"context"
	"errors"
	"fmt"
	"sync"
	"sync/atomic"
	"testing"
	"time"

	eth2client "github.com/attestantio/go-eth2-client"
	"github.com/attestantio/go-eth2-client/api"
	"github.com/attestantio/go-eth2-client/spec"
	"github.com/attestantio/go-eth2-client/spec/phase0"
	bestproposal "github.com/attestantio/vouch/strategies/beaconblockproposal/best"
	"github.com/rs/zerolog"
	"pgregory.net/rapid"

	"verifharness/internal/fakes"
)

// NodeSpec is one beacon node behind the "best" proposal strategy.
type NodeSpec struct {
	HasNodeClient bool         `json:"has_node_client"`
	NodeClientErr bool         `json:"node_client_err,omitempty"`
	ErrKind       string       `json:"err_kind,omitempty"` // kind of the node client failure
	ClientName    string       `json:"client_name"`
	Proposal      ProposalSpec `json:"proposal"`
}

// BestCase drives strategies/beaconblockproposal/best.Proposal directly.
type BestCase struct {
	Slot     uint64     `json:"slot"`
	Randao   byte       `json:"randao"`
	Graffiti Blob       `json:"graffiti"` // copied into the 32-byte graffiti of the request
	Nodes    []NodeSpec `json:"nodes"`
}

// nodeDouble is a ProposalProvider whose answers are what go-eth2-client's HTTP
// client would deliver for the scripted response.
type nodeDouble struct {
	spec      *NodeSpec
	calls     atomic.Int64
	delivered atomic.Int64
	graffiti  sync.Map
}

func (n *nodeDouble) Proposal(_ context.Context, opts *api.ProposalOpts) (*api.Response[*api.VersionedProposal], error) {
	n.calls.Add(1)
	if opts == nil {
		return nil, errors.New("no options specified")
	}
	if opts.Slot == 0 {
		return nil, errors.New("no slot specified")
	}
	p, err := buildProposal(&n.spec.Proposal, opts.Slot, opts.RandaoReveal)
	if err != nil {
		return nil, err
	}
	n.delivered.Add(1)
	return &api.Response[*api.VersionedProposal]{Data: p, Metadata: map[string]any{}}, nil
}

// nodeDoubleWithClient additionally is a NodeClientProvider.
type nodeDoubleWithClient struct{ nodeDouble }

func (n *nodeDoubleWithClient) NodeClient(context.Context) (*api.Response[string], error) {
	if n.spec.NodeClientErr {
		return nil, clientError(n.spec.ErrKind, "v1/node/version")
	}
	return &api.Response[string]{Data: n.spec.ClientName, Metadata: map[string]any{}}, nil
}

func buildNodes(specs []NodeSpec) (map[string]eth2client.ProposalProvider, []*nodeDouble) {
	providers := map[string]eth2client.ProposalProvider{}
	var doubles []*nodeDouble
	for i := range specs {
		name := fmt.Sprintf("node%d", i)
		if specs[i].HasNodeClient {
			d := &nodeDoubleWithClient{nodeDouble{spec: &specs[i]}}
			providers[name] = d
			doubles = append(doubles, &d.nodeDouble)
		} else {
			d := &nodeDouble{spec: &specs[i]}
			providers[name] = d
			doubles = append(doubles, d)
		}
	}
	return providers, doubles
}

type nullEvents struct{}

func (nullEvents) Events(context.Context, []string, eth2client.EventHandlerFunc) error { return nil }

type errBlocks struct{}

func (errBlocks) SignedBeaconBlock(context.Context, *api.SignedBeaconBlockOpts) (*api.Response[*spec.VersionedSignedBeaconBlock], error) {
	return nil, errors.New("no block")
}

type nullRootToSlot struct{}

func (nullRootToSlot) BlockRootToSlot(context.Context, phase0.Root) (phase0.Slot, error) {
	return 0, errors.New("unknown root")
}

func newClock(slot uint64) *fakes.VClock {
	c := fakes.NewVClock(time.Unix(1600000000, 0), 12*time.Second, 32)
	c.SetSlot(slot, 0)
	return c
}

const bestTimeout = 400 * time.Millisecond

func newBestStrategy(ctx context.Context, slot uint64, providers map[string]eth2client.ProposalProvider) (*bestproposal.Service, error) {
	return bestproposal.New(ctx,
		bestproposal.WithLogLevel(zerolog.Disabled),
		bestproposal.WithTimeout(bestTimeout),
		bestproposal.WithClientMonitor(nullMonitor),
		bestproposal.WithProcessConcurrency(4),
		bestproposal.WithEventsProvider(nullEvents{}),
		bestproposal.WithChainTimeService(newClock(slot)),
		bestproposal.WithSpecProvider(specProvider{slotsPerEpoch: 32}),
		bestproposal.WithProposalProviders(providers),
		bestproposal.WithSignedBeaconBlockProvider(errBlocks{}),
		bestproposal.WithBlockRootToSlotCache(nullRootToSlot{}),
	)
}

func graffitiArray(b []byte) [32]byte {
	var g [32]byte
	copy(g[:], b)
	return g
}

func runBest(c *BestCase, out *outcome) {
	libBefore := libraryPanics.Load()
	defer func() {
		if libraryPanics.Load() > libBefore {
			out.label("best:response-the-client-library-itself-panics-on")
		}
	}()
	ctx, cancel := context.WithCancel(context.Background())
	defer cancel()
	providers, doubles := buildNodes(c.Nodes)
	if len(providers) == 0 {
		out.harness = "best case without nodes"
		return
	}
	svc, err := newBestStrategy(ctx, c.Slot, providers)
	if err != nil {
		out.harness = "cannot construct best proposal strategy: " + err.Error()
		return
	}
	opts := &api.ProposalOpts{Slot: phase0.Slot(c.Slot), RandaoReveal: randaoOf(c.Randao), Graffiti: graffitiArray(c.Graffiti.Bytes())}
	var resp *api.Response[*api.VersionedProposal]
	var perr error
	out.addPanic(guard(func() { resp, perr = svc.Proposal(ctx, opts) }))
	delivered := int64(0)
	for _, d := range doubles {
		delivered += d.delivered.Load()
	}
	// first validation layer of this target: at least one node's answer decoded and
	// passed the client library's own checks, i.e. reached the strategy's scoring.
	out.nontrivial = delivered > 0
	classifyGraffiti(c.Graffiti.Bytes(), c.Nodes, out, "best")
	switch {
	case len(out.panics) > 0:
	case perr != nil:
		out.label("best:returned-error")
	case resp == nil || resp.Data == nil:
		out.label("best:returned-nil")
	default:
		out.label("best:returned-proposal")
		if resp.Data.Blinded {
			out.label("best:returned-blinded")
		}
	}
}

func classifyGraffiti(g []byte, nodes []NodeSpec, out *outcome, target string) {
	arr := graffitiArray(g)
	if !containsBytes(arr[:], "{{CLIENT}}") {
		return
	}
	out.label(target + ":graffiti-with-client-tag")
	for _, n := range nodes {
		if n.HasNodeClient && !n.NodeClientErr {
			switch {
			case len(n.ClientName) < 10:
				out.label(target + ":client-name-shorter-than-tag")
			case len(n.ClientName) == 10:
				out.label(target + ":client-name-same-length-as-tag")
			default:
				out.label(target + ":client-name-longer-than-tag")
			}
		}
	}
}

func containsBytes(b []byte, s string) bool {
	return len(s) <= len(b) && (func() bool {
		for i := 0; i+len(s) <= len(b); i++ {
			if string(b[i:i+len(s)]) == s {
				return true
			}
		}
		return false
	})()
}

// ---- generators -----------------------------------------------------------------

var clientNames = []string{"lighthouse", "lodestar", "nimbus", "prysm", "teku", "", "x", "grandine", "grandine/v1.0.0",
	"erigon/caplin", "nimbus-eth2-beacon-node-v24.2.2", "a-client-name-that-is-exactly-40-chars--", "{{CLIENT}}", "nine-char", "ten--chars", "eleven-char"}

func genGraffiti(t *rapid.T) []byte {
	switch rapid.IntRange(0, 9).Draw(t, "graffitiKind") {
	case 0:
		return nil
	case 1:
		return []byte(rapid.StringN(0, 32, 32).Draw(t, "graffitiText"))
	case 2:
		return rapid.SliceOfN(rapid.Byte(), 0, 40).Draw(t, "graffitiBytes")
	default:
		pre := rapid.SampledFrom([]string{"", "", "vouch ", "my validator ", "0123456789012345678901", "01234567890123456789012", "{{CLIENT}}", "{{CLIENT"}).Draw(t, "graffitiPre")
		post := rapid.SampledFrom([]string{"", "", " rocks", "/vouch", "{{CLIENT}}", "}}", " {{SLOT}}"}).Draw(t, "graffitiPost")
		return []byte(pre + "{{CLIENT}}" + post)
	}
}

func genNodeSpec(t *rapid.T, slot uint64, randao byte) NodeSpec {
	return NodeSpec{
		HasNodeClient: rapid.IntRange(0, 4).Draw(t, "hasNodeClient") > 0,
		NodeClientErr: rapid.IntRange(0, 7).Draw(t, "nodeClientErr") == 0,
		ErrKind:       genErrKind(t, "nodeClientErrKind"),
		ClientName:    rapid.SampledFrom(clientNames).Draw(t, "clientName"),
		Proposal:      genProposalSpec(t, slot, randao),
	}
}

func genSlot(t *rapid.T) uint64 {
	// The slot of a proposal request is vouch's own: the controller only schedules duties inside the
	// epoch its clock is in, so it stays below 2^63 (util.SlotToInt64 deliberately panics beyond);
	// slot 0 is refused by the client library's Proposal call itself.
	return rapid.SampledFrom([]uint64{1, 2, 31, 32, 33, 1000, 1<<31 - 1, 1 << 31, 1<<32 - 1, 1 << 32, 1<<32 + 1, 1<<62 + 1, 1<<63 - 2, 1<<63 - 1}).Draw(t, "slot")
}

func genBestCase(t *rapid.T) Case {
	c := &BestCase{Slot: genSlot(t), Randao: rapid.SampledFrom([]byte{0x01, 0xc0, 0xff}).Draw(t, "randao")}
	c.Graffiti = blobOf(genGraffiti(t))
	n := rapid.IntRange(1, 3).Draw(t, "nNodes")
	for i := 0; i < n; i++ {
		c.Nodes = append(c.Nodes, genNodeSpec(t, c.Slot, c.Randao))
	}
	return Case{Target: "best", Best: c}
}

func TestBestProposal(t *testing.T) { prop(t, genBestCase) }
