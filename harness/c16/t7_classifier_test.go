package c16

import (
	"context"
	"encoding/json"
	"errors"
	"fmt"
	"strings"
	"testing"
	"time"

	eth2client "github.com/attestantio/go-eth2-client"
	"github.com/attestantio/go-eth2-client/api"
	apiv1 "github.com/attestantio/go-eth2-client/api/v1"
	"github.com/attestantio/go-eth2-client/spec/altair"
	"github.com/attestantio/go-eth2-client/spec/phase0"
	"github.com/attestantio/vouch/services/submitter/multinode"
	"github.com/prysmaticlabs/go-bitfield"
	"github.com/rs/zerolog"
	"pgregory.net/rapid"

	"verifharness/internal/ev"
)

// SubmitNodeSpec is one beacon node behind the multinode submitter.
type SubmitNodeSpec struct {
	NodeVersion    string `json:"node_version"`
	NodeVersionErr bool   `json:"node_version_err,omitempty"`
	ErrKind        string `json:"err_kind,omitempty"` // kind of the node version failure
	// APIStatus: if non-zero the submission error is an *api.Error with this status whose body is
	// ErrText (its text is then "POST failed with status <n>: <ErrText>"), optionally joined to a
	// context message; otherwise it is a plain error with the text ErrText.
	APIStatus int  `json:"api_status,omitempty"`
	Joined    bool `json:"joined,omitempty"`
	// ErrText is the text of the error the client library returns for the submission
	// ("" = the submission succeeds).  go-eth2-client formats a rejected POST as
	// "POST failed with status <code>: <response body>", so the text after the prefix is
	// whatever the beacon node sent.
	ErrText Blob `json:"err_text"`
}

// ClassifierCase drives the error classifiers of services/submitter/multinode.
type ClassifierCase struct {
	Op    string           `json:"op"` // messages | contributions | attestations
	Nodes []SubmitNodeSpec `json:"nodes"`
}

type submitNode struct {
	name string
	spec *SubmitNodeSpec
}

func (n *submitNode) Name() string    { return n.name }
func (n *submitNode) Address() string { return n.name }
func (n *submitNode) IsActive() bool  { return true }
func (n *submitNode) IsSynced() bool  { return true }
func (n *submitNode) NodeVersion(context.Context, *api.NodeVersionOpts) (*api.Response[string], error) {
	if n.spec.NodeVersionErr {
		return nil, clientError(n.spec.ErrKind, "v1/node/version")
	}
	return &api.Response[string]{Data: n.spec.NodeVersion, Metadata: map[string]any{}}, nil
}
func (n *submitNode) result() error {
	t := n.spec.ErrText.Bytes()
	if n.spec.APIStatus != 0 {
		var err error = &api.Error{Method: "POST", Endpoint: "/eth/v1/beacon/pool", StatusCode: n.spec.APIStatus, Data: append([]byte{}, t...)}
		if n.spec.Joined {
			err = errors.Join(errors.New("failed to submit"), err)
		}
		return err
	}
	if len(t) > 0 {
		return errors.New(string(t))
	}
	return nil
}
func (n *submitNode) SubmitSyncCommitteeMessages(context.Context, []*altair.SyncCommitteeMessage) error {
	return n.result()
}
func (n *submitNode) SubmitSyncCommitteeContributions(context.Context, []*altair.SignedContributionAndProof) error {
	return n.result()
}
func (n *submitNode) SubmitAttestations(context.Context, []*phase0.Attestation) error {
	return n.result()
}
func (n *submitNode) SubmitProposal(context.Context, *api.SubmitProposalOpts) error { return nil }
func (n *submitNode) SubmitAggregateAttestations(context.Context, []*phase0.SignedAggregateAndProof) error {
	return nil
}
func (n *submitNode) SubmitProposalPreparations(context.Context, []*apiv1.ProposalPreparation) error {
	return nil
}
func (n *submitNode) SubmitBeaconCommitteeSubscriptions(context.Context, []*apiv1.BeaconCommitteeSubscription) error {
	return nil
}
func (n *submitNode) SubmitSyncCommitteeSubscriptions(context.Context, []*apiv1.SyncCommitteeSubscription) error {
	return nil
}

const classifierTimeout = 25 * time.Millisecond

// nullFailureIn reports whether text carries a JSON document (from its first '{')
// whose "failures" array has a null element.
func nullFailureIn(text string) bool {
	i := strings.Index(text, "{")
	if i < 0 {
		return false
	}
	var doc struct {
		Failures []*json.RawMessage `json:"failures"`
	}
	if err := json.Unmarshal([]byte(text[i:]), &doc); err != nil {
		// the classifiers decode into typed structs, which can fail where this succeeds and vice
		// versa only on field types; a null element is visible either way when the array decodes
		var loose map[string]json.RawMessage
		if json.Unmarshal([]byte(text[i:]), &loose) != nil {
			return false
		}
		var arr []*json.RawMessage
		if json.Unmarshal(loose["failures"], &arr) != nil {
			return false
		}
		doc.Failures = arr
	}
	for _, f := range doc.Failures {
		if f == nil {
			return true
		}
	}
	return false
}

const (
	sigNullFailureMessages      = "panic:services/submitter/multinode/submitsynccommitteemessages.go:handleSubmitSyncCommitteeMessagesError:nil-deref"
	sigNullFailureContributions = "panic:services/submitter/multinode/submitsynccommitteecontributions.go:handleSubmitSyncCommitteeContributionsError:nil-deref"
)

// errString is the text of the node's submission error ("" = success).
func (n *SubmitNodeSpec) errString() string {
	if err := (&submitNode{spec: n}).result(); err != nil {
		return err.Error()
	}
	return ""
}

func serverTypeOf(n *SubmitNodeSpec) string {
	if n.NodeVersionErr {
		return ""
	}
	v := strings.ToLower(n.NodeVersion)
	for _, s := range []string{"lighthouse", "lodestar", "prysm", "teku", "nimbus"} {
		if strings.Contains(v, s) {
			return s
		}
	}
	return ""
}

func runClassifier(c *ClassifierCase, out *outcome) {
	if len(c.Nodes) == 0 {
		out.harness = "classifier case without nodes"
		return
	}
	// The classifiers run on goroutines the submitter starts itself, so a panic there kills the
	// process.  Where such a crash is a listed open finding the trigger is not executed (the search
	// could not continue behind a dead process); the exclusion is counted.
	for i := range c.Nodes {
		n := &c.Nodes[i]
		if !nullFailureIn(n.errString()) {
			continue
		}
		st := serverTypeOf(n)
		switch {
		case c.Op == "messages" && (st == "lighthouse" || st == "teku") && ev.IsKnown(sigNullFailureMessages):
			ev.KnownHit(sigNullFailureMessages)
			out.label("classifier:excluded-known-null-failure")
			return
		case c.Op == "contributions" && st == "lighthouse" && ev.IsKnown(sigNullFailureContributions):
			ev.KnownHit(sigNullFailureContributions)
			out.label("classifier:excluded-known-null-failure")
			return
		}
	}

	ctx, cancel := context.WithCancel(context.Background())
	defer cancel()
	mon := newDoneMonitor()
	nodes := map[string]*submitNode{}
	for i := range c.Nodes {
		name := fmt.Sprintf("node%d", i)
		nodes[name] = &submitNode{name: name, spec: &c.Nodes[i]}
	}
	proposal := map[string]eth2client.ProposalSubmitter{}
	atts := map[string]eth2client.AttestationsSubmitter{}
	aggs := map[string]eth2client.AggregateAttestationsSubmitter{}
	preps := map[string]eth2client.ProposalPreparationsSubmitter{}
	subs := map[string]eth2client.BeaconCommitteeSubscriptionsSubmitter{}
	msgs := map[string]eth2client.SyncCommitteeMessagesSubmitter{}
	ssubs := map[string]eth2client.SyncCommitteeSubscriptionsSubmitter{}
	contribs := map[string]eth2client.SyncCommitteeContributionsSubmitter{}
	for name, n := range nodes {
		proposal[name], atts[name], aggs[name], preps[name], subs[name], msgs[name], ssubs[name], contribs[name] = n, n, n, n, n, n, n, n
	}
	svc, err := multinode.New(ctx,
		multinode.WithLogLevel(zerolog.Disabled),
		multinode.WithTimeout(classifierTimeout),
		multinode.WithClientMonitor(mon),
		multinode.WithProcessConcurrency(2),
		multinode.WithProposalSubmitters(proposal),
		multinode.WithAttestationsSubmitters(atts),
		multinode.WithAggregateAttestationsSubmitters(aggs),
		multinode.WithProposalPreparationsSubmitters(preps),
		multinode.WithBeaconCommitteeSubscriptionsSubmitters(subs),
		multinode.WithSyncCommitteeMessagesSubmitters(msgs),
		multinode.WithSyncCommitteeSubscriptionsSubmitters(ssubs),
		multinode.WithSyncCommitteeContributionsSubmitters(contribs),
	)
	if err != nil {
		out.harness = "cannot construct multinode submitter: " + err.Error()
		return
	}
	var serr error
	out.addPanic(guard(func() {
		switch c.Op {
		case "messages":
			serr = svc.SubmitSyncCommitteeMessages(ctx, []*altair.SyncCommitteeMessage{{Slot: 5, ValidatorIndex: 1}})
		case "contributions":
			serr = svc.SubmitSyncCommitteeContributions(ctx, []*altair.SignedContributionAndProof{{
				Message: &altair.ContributionAndProof{AggregatorIndex: 1, Contribution: &altair.SyncCommitteeContribution{Slot: 5, AggregationBits: bitfield.NewBitvector128()}},
			}})
		default:
			serr = svc.SubmitAttestations(ctx, []*phase0.Attestation{{
				AggregationBits: bitfield.NewBitlist(8),
				Data:            &phase0.AttestationData{Slot: 5, Source: &phase0.Checkpoint{}, Target: &phase0.Checkpoint{}},
			}})
		}
	}))
	// Every node's goroutine reports through the client monitor once its classifier has run.
	deadline := time.After(30 * time.Second)
	for seen := 0; seen < len(nodes); {
		select {
		case <-mon.ch:
			seen++
		case <-deadline:
			out.harness = "a submitter goroutine did not finish within 30s"
			return
		}
	}
	// first validation layer: an error text that the classifier tries to decode as a response
	// document (it contains '{') on a node whose type has a classifier.
	for i := range c.Nodes {
		n := &c.Nodes[i]
		txt := n.errString()
		if txt == "" {
			out.label("classifier:node-success")
			continue
		}
		st := serverTypeOf(n)
		if st != "" {
			out.label("classifier:server-" + st)
		}
		classified := strings.Contains(txt, "{") && ((c.Op == "messages" && (st == "lighthouse" || st == "teku")) || (c.Op == "contributions" && st == "lighthouse"))
		if c.Op == "attestations" && (st == "lighthouse" || st == "nimbus") {
			classified = true
		}
		if classified {
			out.nontrivial = true
			i := strings.Index(txt, "{")
			if i >= 0 && json.Valid([]byte(txt[i:])) {
				out.label("classifier:json-decodes")
			}
		}
	}
	out.label("classifier:op-" + c.Op)
	if serr == nil {
		out.label("classifier:submission-succeeded")
	} else {
		out.label("classifier:submission-failed")
	}
}

// ---- generators -----------------------------------------------------------------

var nodeVersions = []string{
	"Lighthouse/v5.1.3-3058b96/x86_64-linux", "teku/v24.4.0/linux-x86_64/-eclipseadoptium-openjdk64bitservervm-java-17",
	"Nimbus/v24.2.2-fc9c72-stateofus", "Prysm/v5.0.3 (linux amd64)", "Lodestar/v1.17.0/8ea34e5", "", "unknown", "LIGHTHOUSE", "teku+lighthouse",
}

func genFailure(t *rapid.T, teku bool) any {
	switch rapid.IntRange(0, 9).Draw(t, "failureKind") {
	case 0:
		return nil
	case 1:
		return rapid.SampledFrom([]any{"x", 1, []any{}, true}).Draw(t, "failureWrong")
	}
	m := map[string]any{}
	idx := rapid.SampledFrom([]any{0, 1, "0", "1", 18446744073709551615.0, "18446744073709551616", -1, 1.5, nil, "x", 1e30,
		2147483647, 2147483648, 4294967296, json.RawMessage("9223372036854775807"), json.RawMessage("9223372036854775808"),
		json.RawMessage("18446744073709551615"), json.RawMessage("-9223372036854775808"), "9223372036854775807", "18446744073709551615", "-1"}).Draw(t, "failureIndex")
	if rapid.IntRange(0, 5).Draw(t, "hasIndex") > 0 {
		m["index"] = idx
	}
	msgs := []any{"Verification: PriorSyncCommitteeMessageKnown { validator_index: 1, slot: Slot(5) }",
		"Verification: AggregatorAlreadyKnown(1)", "Ignoring sync committee message as a duplicate was processed during validation",
		"Verification: UnknownValidatorIndex(1)", "", nil, 5, "\u0000", strings.Repeat("x", 300)}
	if rapid.IntRange(0, 7).Draw(t, "hasMessage") > 0 {
		m["message"] = rapid.SampledFrom(msgs).Draw(t, "failureMessage")
	}
	_ = teku
	return m
}

func genErrText(t *rapid.T) []byte {
	switch rapid.IntRange(0, 11).Draw(t, "errKind") {
	case 0:
		return nil // success
	case 1:
		return []byte(rapid.SampledFrom([]string{"context deadline exceeded", "connection refused", "POST failed with status 500: ",
			"PriorAttestationKnown", "UnknownHeadBlock", "Attempt to send attestation for unknown target", "{", "}{", "{}", "x{\"failures\":", "{\"failures\":[]}",
			"{\"failures\":null}", "{\"failures\":{}}", "{\"failures\":[null]}", "{\"code\":400,\"failures\":[{}]}"}).Draw(t, "errLiteral"))
	case 2:
		return rapid.SliceOfN(rapid.Byte(), 1, 60).Draw(t, "errBytes")
	}
	doc := map[string]any{}
	if rapid.IntRange(0, 3).Draw(t, "hasCode") > 0 {
		doc["code"] = rapid.SampledFrom([]any{400, "400", 500, nil, 1e30, -1, "x", 2147483648, json.RawMessage("9223372036854775807"),
			json.RawMessage("9223372036854775808"), json.RawMessage("18446744073709551615")}).Draw(t, "code")
	}
	if rapid.IntRange(0, 3).Draw(t, "hasMsg") > 0 {
		doc["message"] = rapid.SampledFrom([]any{"some failures", "", nil, 5}).Draw(t, "docMessage")
	}
	switch rapid.IntRange(0, 9).Draw(t, "failuresKind") {
	case 0:
		doc["failures"] = nil
	case 1:
		doc["failures"] = rapid.SampledFrom([]any{"x", 1, map[string]any{}}).Draw(t, "failuresWrong")
	case 2:
	default:
		n := rapid.IntRange(0, 3).Draw(t, "nFailures")
		l := make([]any, 0, n)
		for i := 0; i < n; i++ {
			l = append(l, genFailure(t, false))
		}
		doc["failures"] = l
	}
	body := mustJSON(doc)
	switch rapid.IntRange(0, 5).Draw(t, "bodyDamage") {
	case 0:
		body = body[:len(body)/2]
	case 1:
		body += "\xff trailing"
	}
	prefix := rapid.SampledFrom([]string{"POST failed with status 400: ", "POST failed with status 400: ", "failed to submit: POST failed with status 202: ", "", "{ nested "}).Draw(t, "errPrefix")
	return []byte(prefix + body)
}

func genClassifierCase(t *rapid.T) Case {
	c := &ClassifierCase{Op: rapid.SampledFrom([]string{"messages", "messages", "contributions", "contributions", "attestations"}).Draw(t, "op")}
	n := rapid.IntRange(1, 2).Draw(t, "nNodes")
	for i := 0; i < n; i++ {
		c.Nodes = append(c.Nodes, SubmitNodeSpec{
			NodeVersion:    rapid.SampledFrom(nodeVersions).Draw(t, "nodeVersion"),
			NodeVersionErr: rapid.IntRange(0, 11).Draw(t, "nodeVersionErr") == 0,
			ErrKind:        genErrKind(t, "nodeVersionErrKind"),
			ErrText:        blobOf(genErrText(t)),
			APIStatus:      rapid.SampledFrom([]int{0, 0, 0, 400, 400, 404, 500, 503, 202}).Draw(t, "apiStatus"),
			Joined:         rapid.Bool().Draw(t, "joined"),
		})
	}
	return Case{Target: "classifier", Classifier: c}
}

func TestClassifiers(t *testing.T) { prop(t, genClassifierCase) }

// FuzzClassifier is the byte-level campaign over the error text.
func FuzzClassifier(f *testing.F) {
	f.Add([]byte(`POST failed with status 400: {"code":400,"message":"some failures","failures":[{"index":0,"message":"Verification: PriorSyncCommitteeMessageKnown { validator_index: 1, slot: Slot(5) }"}]}`), byte(0))
	f.Add([]byte(`POST failed with status 400: {"code":"400","failures":[{"index":"0","message":"Ignoring sync committee message as a duplicate was processed during validation"}]}`), byte(4))
	f.Add([]byte(`{"failures":[{"index":1,"message":"Verification: AggregatorAlreadyKnown(1)"}]}`), byte(2))
	f.Add([]byte(`PriorAttestationKnown`), byte(3))
	f.Fuzz(func(t *testing.T, text []byte, sel byte) {
		if len(text) > 1<<14 {
			t.Skip()
		}
		ops := []string{"messages", "messages", "contributions", "attestations"}
		vers := []string{"Lighthouse/v5", "teku/v24"}
		c := Case{Target: "classifier", Classifier: &ClassifierCase{
			Op:    ops[int(sel)%len(ops)],
			Nodes: []SubmitNodeSpec{{NodeVersion: vers[int(sel/4)%len(vers)], ErrText: blobOf(text)}},
		}}
		check(t, &c)
	})
}
