package c16

import (
	"context"
	"encoding/json"
	"fmt"
	"math/big"
	"net/http"
	"net/http/httptest"
	"strconv"
	"strings"
	"sync/atomic"
	"testing"
	"time"

	"github.com/attestantio/go-block-relay/services/blockauctioneer"
	apibellatrix "github.com/attestantio/go-builder-client/api/bellatrix"
	apicapella "github.com/attestantio/go-builder-client/api/capella"
	apideneb "github.com/attestantio/go-builder-client/api/deneb"
	"github.com/attestantio/go-eth2-client/spec/bellatrix"
	"github.com/attestantio/go-eth2-client/spec/phase0"
	"github.com/attestantio/vouch/services/beaconblockproposer"
	"github.com/attestantio/vouch/services/blockrelay"
	bestbid "github.com/attestantio/vouch/strategies/builderbid/best"
	deadlinebid "github.com/attestantio/vouch/strategies/builderbid/deadline"
	"github.com/rs/zerolog"
	"github.com/shopspring/decimal"
	"pgregory.net/rapid"

	"verifharness/internal/fakes"
)

// BidSpec is the builder bid a relay answers with.
type BidSpec struct {
	Version      string     `json:"version"` // bellatrix | capella | deneb | phase0 | altair | nonsense
	VersionIn    string     `json:"version_in"` // header | body | both | none
	Envelope     string     `json:"envelope"`   // data | null | missing
	Value        string     `json:"value"`
	FeeRecipient byte       `json:"fee_recipient"`
	Timestamp    string     `json:"timestamp"`   // ok | zero | wrong
	ParentHash   string     `json:"parent_hash"` // ok | wrong
	BuilderKey   int        `json:"builder_key"`
	Sign         string     `json:"sign"` // ok | zero | flipped | infinity
	Muts         []Mutation `json:"muts,omitempty"`
}

// RelayResponse is the HTTP answer of a relay to a header request.
type RelayResponse struct {
	Status      int     `json:"status"`
	ContentType string  `json:"content_type"`
	Literal     *Blob   `json:"literal,omitempty"` // body sent as is, instead of a bid
	Bid         BidSpec `json:"bid"`
}

// RelaySpec is one relay of the proposer configuration.
type RelaySpec struct {
	// Address: "" means "the address of this case's relay double"; anything else is used
	// literally (malformed addresses).
	Address      string        `json:"address"`
	UserPubkey   string        `json:"user_pubkey"`   // none | match | other | short | junk | nothex
	ConfigPubkey string        `json:"config_pubkey"` // none | match | other | junk
	GraceMs      int           `json:"grace_ms"`
	MinValue     string        `json:"min_value"`
	Response     RelayResponse `json:"response"`
}

// BuilderCfgSpec is an operator-supplied builder configuration entry.
type BuilderCfgSpec struct {
	Key      int    `json:"key"`
	Category string `json:"category"`
	Factor   string `json:"factor,omitempty"`
	Offset   string `json:"offset,omitempty"`
}

// BidsCase drives strategies/builderbid/{best,deadline}.BuilderBid.
type BidsCase struct {
	Strategy       string           `json:"strategy"` // best | deadline
	Slot           uint64           `json:"slot"`
	ParentHashZero bool             `json:"parent_hash_zero,omitempty"`
	Pubkey         int              `json:"pubkey"`
	Relays         []RelaySpec      `json:"relays"`
	BuilderConfigs []BuilderCfgSpec `json:"builder_configs,omitempty"`
}

var bidParentHash = phase0.Hash32{0x51, 0x51, 0x51, 0x51, 0x51, 0x51, 0x51, 0x51, 0x51, 0x51, 0x51, 0x51, 0x51, 0x51, 0x51, 0x51, 0x51, 0x51, 0x51, 0x51, 0x51, 0x51, 0x51, 0x51, 0x51, 0x51, 0x51, 0x51, 0x51, 0x51, 0x51, 0x51}

// relayKey is the BLS key every relay double signs with.
const relayKey = 3

func builderDomain() phase0.Domain {
	d, _ := domainProvider{}.GenesisDomain(context.Background(), phase0.DomainType{0x00, 0x00, 0x00, 0x01})
	return d
}

// bidBody builds the response body for a bid.
func bidBody(b *BidSpec, slotTimestamp uint64) []byte {
	initKeys()
	p := &BlockParams{FeeRecipient: b.FeeRecipient, PayloadState: 0x52, BlockNumber: 7}
	headerVersion := b.Version
	if headerVersion != "bellatrix" && headerVersion != "capella" && headerVersion != "deneb" {
		headerVersion = "capella"
	}
	header := payloadJSON(headerVersion, true, p)
	switch b.Timestamp {
	case "ok":
		header["timestamp"] = strconv.FormatUint(slotTimestamp, 10)
	case "zero":
		header["timestamp"] = "0"
	default:
		header["timestamp"] = strconv.FormatUint(slotTimestamp+12, 10)
	}
	if b.ParentHash != "ok" {
		header["parent_hash"] = hexN(32, 0x15)
	}
	builder := pubkeyByIdx(b.BuilderKey)
	message := map[string]any{"header": header, "value": b.Value, "pubkey": hexOf(builder[:])}
	if headerVersion == "deneb" {
		message["blob_kzg_commitments"] = []any{}
	}
	data := map[string]any{"message": message, "signature": hexN(96, 0x00)}
	mutate(data, b.Muts)

	// Sign what will be sent, if it still decodes.
	sig := make([]byte, 96)
	if msg, ok := data["message"]; ok && msg != nil && b.Sign != "zero" {
		raw, _ := json.Marshal(msg)
		var root [32]byte
		var err error
		switch headerVersion {
		case "bellatrix":
			var m apibellatrix.BuilderBid
			if err = json.Unmarshal(raw, &m); err == nil {
				root, err = m.HashTreeRoot()
			}
		case "capella":
			var m apicapella.BuilderBid
			if err = json.Unmarshal(raw, &m); err == nil {
				root, err = m.HashTreeRoot()
			}
		default:
			var m apideneb.BuilderBid
			if err = json.Unmarshal(raw, &m); err == nil {
				root, err = m.HashTreeRoot()
			}
		}
		if err == nil {
			sd := &phase0.SigningData{ObjectRoot: root, Domain: builderDomain()}
			sr, _ := sd.HashTreeRoot()
			copy(sig, privKeys[relayKey].Sign(sr[:]).Marshal())
		}
	}
	switch b.Sign {
	case "flipped":
		sig[5] ^= 0xff
	case "infinity":
		sig = make([]byte, 96)
		sig[0] = 0xc0
	}
	if _, ok := data["signature"]; ok && data["signature"] != nil {
		if s, isStr := data["signature"].(string); isStr && s == hexN(96, 0x00) {
			data["signature"] = hexOf(sig)
		}
	}

	env := map[string]any{}
	if b.VersionIn == "body" || b.VersionIn == "both" {
		env["version"] = b.Version
	}
	switch b.Envelope {
	case "data":
		env["data"] = data
	case "null":
		env["data"] = nil
	}
	return []byte(mustJSON(env))
}

type relayServer struct {
	srv    *httptest.Server
	served atomic.Int64
}

func startRelay(spec *RelaySpec, slotTimestamp uint64) *relayServer {
	rs := &relayServer{}
	body := []byte(nil)
	if spec.Response.Literal != nil {
		body = spec.Response.Literal.Bytes()
	} else {
		body = bidBody(&spec.Response.Bid, slotTimestamp)
	}
	rs.srv = httptest.NewServer(http.HandlerFunc(func(w http.ResponseWriter, r *http.Request) {
		defer rs.served.Add(1)
		if !strings.Contains(r.URL.Path, "/eth/v1/builder/header/") {
			w.WriteHeader(http.StatusNotFound)
			return
		}
		if spec.Response.ContentType != "" {
			w.Header().Set("Content-Type", spec.Response.ContentType)
		} else {
			w.Header()["Content-Type"] = nil
		}
		b := &spec.Response.Bid
		if spec.Response.Literal == nil && (b.VersionIn == "header" || b.VersionIn == "both") {
			w.Header().Set("Eth-Consensus-Version", b.Version)
		}
		w.WriteHeader(spec.Response.Status)
		if spec.Response.Status != http.StatusNoContent {
			_, _ = w.Write(body)
		}
	}))
	return rs
}

func userPart(kind string) string {
	initKeys()
	switch kind {
	case "match":
		return hexOf(pubKeys[relayKey][:]) + "@"
	case "other":
		return hexOf(pubKeys[0][:]) + "@"
	case "short":
		return "0x1234@"
	case "junk":
		return "0x" + strings.Repeat("ab", 48) + "@"
	case "nothex":
		return "0xnothex@"
	}
	return ""
}

func configPubkey(kind string) *phase0.BLSPubKey {
	initKeys()
	var k phase0.BLSPubKey
	switch kind {
	case "match":
		k = pubKeys[relayKey]
	case "other":
		k = pubKeys[0]
	case "junk":
		for i := range k {
			k[i] = 0xab
		}
	default:
		return nil
	}
	return &k
}

type bidStrategy interface {
	BuilderBid(ctx context.Context, slot phase0.Slot, parentHash phase0.Hash32, pubkey phase0.BLSPubKey,
		proposerConfig *beaconblockproposer.ProposerConfig, builderConfigs map[phase0.BLSPubKey]*blockrelay.BuilderConfig,
	) (*blockauctioneer.Results, error)
}

const (
	bidTimeout  = 60 * time.Millisecond
	bidDeadline = 40 * time.Millisecond
	bidGap      = 15 * time.Millisecond
)

func runBids(c *BidsCase, out *outcome) {
	initKeys()
	ctx, cancel := context.WithCancel(context.Background())
	defer cancel()
	// The slot starts now, so that the deadline strategy's deadline is a few tens of ms away.
	slotDuration := 12 * time.Second
	genesis := time.Now().Add(-time.Duration(c.Slot) * slotDuration).Truncate(time.Second)
	clock := fakes.NewVClock(genesis, slotDuration, 32)
	slotTimestamp := uint64(clock.StartOfSlot(phase0.Slot(c.Slot)).Unix())

	var strategy bidStrategy
	var err error
	if c.Strategy == "deadline" {
		strategy, err = deadlinebid.New(ctx,
			deadlinebid.WithLogLevel(zerolog.Disabled), deadlinebid.WithMonitor(nullMonitor),
			deadlinebid.WithSpecProvider(specProvider{slotsPerEpoch: 32}), deadlinebid.WithDomainProvider(domainProvider{}),
			deadlinebid.WithChainTime(clock), deadlinebid.WithDeadline(time.Since(clock.StartOfSlot(phase0.Slot(c.Slot)))+bidDeadline),
			deadlinebid.WithBidGap(bidGap), deadlinebid.WithReleaseVersion("test"))
	} else {
		strategy, err = bestbid.New(ctx,
			bestbid.WithLogLevel(zerolog.Disabled), bestbid.WithMonitor(nullMonitor),
			bestbid.WithSpecProvider(specProvider{slotsPerEpoch: 32}), bestbid.WithDomainProvider(domainProvider{}),
			bestbid.WithChainTime(clock), bestbid.WithTimeout(bidTimeout), bestbid.WithReleaseVersion("test"))
	}
	if err != nil {
		out.harness = "cannot construct builder bid strategy: " + err.Error()
		return
	}

	pc := &beaconblockproposer.ProposerConfig{FeeRecipient: bellatrix.ExecutionAddress{0x11}}
	var servers []*relayServer
	defer func() {
		for _, s := range servers {
			s.srv.Close()
		}
	}()
	goodAddresses := 0
	for i := range c.Relays {
		r := &c.Relays[i]
		address := r.Address
		if address == "" {
			rs := startRelay(r, slotTimestamp)
			servers = append(servers, rs)
			address = strings.Replace(rs.srv.URL, "http://", "http://"+userPart(r.UserPubkey), 1)
			goodAddresses++
		} else {
			out.label("bids:malformed-address")
			if address == "<empty>" {
				address = ""
			}
		}
		minValue, derr := decimal.NewFromString(r.MinValue)
		if derr != nil {
			minValue = decimal.Zero
		}
		pc.Relays = append(pc.Relays, &beaconblockproposer.RelayConfig{
			Address:      address,
			PublicKey:    configPubkey(r.ConfigPubkey),
			FeeRecipient: bellatrix.ExecutionAddress{0x11},
			GasLimit:     30000000,
			Grace:        time.Duration(r.GraceMs) * time.Millisecond,
			MinValue:     minValue,
		})
	}
	builderConfigs := map[phase0.BLSPubKey]*blockrelay.BuilderConfig{}
	for _, b := range c.BuilderConfigs {
		bc := &blockrelay.BuilderConfig{Category: b.Category}
		if f, ok := new(big.Int).SetString(b.Factor, 10); ok && f.Sign() >= 0 {
			bc.Factor = f
		}
		if o, ok := new(big.Int).SetString(b.Offset, 10); ok {
			bc.Offset = o
		}
		builderConfigs[pubkeyByIdx(b.Key)] = bc
	}
	parentHash := bidParentHash
	if c.ParentHashZero {
		parentHash = phase0.Hash32{}
	}

	var res *blockauctioneer.Results
	var berr error
	out.addPanic(guard(func() {
		res, berr = strategy.BuilderBid(ctx, phase0.Slot(c.Slot), parentHash, pubkeyByIdx(c.Pubkey), pc, builderConfigs)
	}))
	// Let goroutines the strategy started finish what they are doing with answers already served.
	time.Sleep(3 * time.Millisecond)

	served := int64(0)
	for _, s := range servers {
		served += s.served.Load()
	}
	// first validation layer: a relay address was accepted and the relay was actually asked
	out.nontrivial = served > 0
	out.label("bids:strategy-" + c.Strategy)
	switch {
	case len(out.panics) > 0:
	case berr != nil:
		out.label("bids:returned-error")
	case res == nil:
		out.label("bids:returned-nil")
	case res.WinningParticipation != nil:
		out.label("bids:winner")
		if len(res.Providers) > 1 {
			out.label("bids:several-winning-providers")
		}
	default:
		out.label("bids:no-winner")
	}
}

// ---- generators -----------------------------------------------------------------

var malformedAddresses = []string{
	"http://[::1", "http://a b/", "%zz", "http://%41:8080/", "http://host:port:bad", "ht!tp://x", "://", "http://\x7f",
	"http://user:pa ss@host", "http://0xZZ@127.0.0.1:1", "http://0x1@127.0.0.1:1", " ", "\t", "http://[fe80::1%en0]:1:2/",
	"http://127.0.0.1:99999999999", "1.2.3.4:http", "http://exa mple.com", "http:// ", "http//missing-colon", "<empty>",
}

func genBidSpec(t *rapid.T) BidSpec {
	// A well-formed bid with a few deviations, so that the later validation layers of the
	// strategies (value, fee recipient, timestamp, signature, scoring) are reached often.
	b := BidSpec{
		Version:      rapid.SampledFrom([]string{"bellatrix", "capella", "deneb"}).Draw(t, "bidVersion"),
		VersionIn:    rapid.SampledFrom([]string{"header", "body", "both"}).Draw(t, "versionIn"),
		Envelope:     "data",
		Value:        rapid.SampledFrom([]string{"1000000000000000000", "1", "2000000000000000000", "115792089237316195423570985008687907853269984665640564039457584007913129639935"}).Draw(t, "bidValue"),
		FeeRecipient: rapid.SampledFrom([]byte{0x11, 0xff}).Draw(t, "bidFeeRecipient"),
		Timestamp:    "ok",
		ParentHash:   "ok",
		BuilderKey:   rapid.IntRange(0, nKeys+1).Draw(t, "bidBuilderKey"),
		Sign:         "ok",
	}
	nDev := rapid.SampledFrom([]int{0, 0, 0, 1, 1, 2, 4}).Draw(t, "bidDeviations")
	for i := 0; i < nDev; i++ {
		switch rapid.IntRange(0, 8).Draw(t, "bidDeviation") {
		case 0:
			b.Version = rapid.SampledFrom([]string{"phase0", "altair", "electra", ""}).Draw(t, "badBidVersion")
		case 1:
			b.VersionIn = "none"
		case 2:
			b.Envelope = rapid.SampledFrom([]string{"null", "missing"}).Draw(t, "badBidEnvelope")
		case 3:
			b.Value = rapid.SampledFrom([]string{"0", "-1", "", "x", "1.5", "115792089237316195423570985008687907853269984665640564039457584007913129639936"}).Draw(t, "badBidValue")
		case 4:
			b.FeeRecipient = 0
		case 5:
			b.Timestamp = rapid.SampledFrom([]string{"zero", "wrong"}).Draw(t, "badBidTimestamp")
		case 6:
			b.ParentHash = "wrong"
		case 7:
			b.Sign = rapid.SampledFrom([]string{"zero", "flipped", "infinity"}).Draw(t, "badBidSign")
		default:
			m := Mutation{Path: rapid.IntRange(0, 60).Draw(t, "bidMutPath"), Op: rapid.SampledFrom(mutationOps).Draw(t, "bidMutOp")}
			if m.Op == "set" {
				m.Val = rapid.SampledFrom(boundaryStrings).Draw(t, "bidMutVal")
			}
			b.Muts = append(b.Muts, m)
		}
	}
	return b
}

func genRelaySpec(t *rapid.T) RelaySpec {
	r := RelaySpec{
		UserPubkey:   rapid.SampledFrom([]string{"none", "none", "none", "match", "match", "match", "match", "other", "short", "junk", "nothex"}).Draw(t, "userPubkey"),
		ConfigPubkey: rapid.SampledFrom([]string{"none", "none", "none", "match", "match", "match", "other", "junk"}).Draw(t, "configPubkey"),
		GraceMs:      rapid.SampledFrom([]int{0, 0, 0, 1, 5}).Draw(t, "graceMs"),
		MinValue:     rapid.SampledFrom([]string{"0", "0", "0", "1", "1000000000000000000", "1e30", "0.5", "18446744073709551615", "18446744073709551616",
			"115792089237316195423570985008687907853269984665640564039457584007913129639935", "115792089237316195423570985008687907853269984665640564039457584007913129639936"}).Draw(t, "minValue"),
	}
	if rapid.IntRange(0, 7).Draw(t, "malformed") == 0 {
		r.Address = rapid.SampledFrom(malformedAddresses).Draw(t, "malformedAddress")
	}
	r.Response.Status = rapid.SampledFrom([]int{200, 200, 200, 200, 200, 200, 200, 200, 200, 200, 200, 200, 204, 400, 404, 500}).Draw(t, "status")
	r.Response.ContentType = rapid.SampledFrom([]string{"application/json", "application/json", "application/json", "application/json", "application/json", "application/json", "application/json; charset=utf-8", "application/octet-stream", "text/plain", ""}).Draw(t, "contentType")
	if rapid.IntRange(0, 14).Draw(t, "literalBody") == 0 {
		l := blobOf([]byte(rapid.SampledFrom([]string{"", "null", "{}", "[]", `{"version":"capella"}`, `{"version":"capella","data":null}`, `{"version":"capella","data":{}}`,
			`{"version":"deneb","data":{"message":null,"signature":null}}`, "{", `{"data":{"message":{"header":null}}}`, `{"version":7,"data":1}`, "\xff\xfe"}).Draw(t, "literal")))
		r.Response.Literal = &l
	}
	r.Response.Bid = genBidSpec(t)
	return r
}

func genBidsCase(t *rapid.T) Case {
	c := &BidsCase{
		Strategy:       rapid.SampledFrom([]string{"best", "best", "deadline"}).Draw(t, "strategy"),
		// the slot only has to stay below 2^63 ns / 12 s so that the harness clock can place "now" at its start
		Slot:           rapid.SampledFrom([]uint64{0, 1, 2, 100, 1000000, 1<<29 - 1, 1 << 29}).Draw(t, "slot"),
		ParentHashZero: rapid.IntRange(0, 29).Draw(t, "parentHashZero") == 0,
		Pubkey:         rapid.SampledFrom([]int{0, 0, 0, 0, 0, 1, 2, 1, 2, nKeys, nKeys + 1}).Draw(t, "pubkey"),
	}
	n := rapid.IntRange(0, 3).Draw(t, "nRelays")
	for i := 0; i < n; i++ {
		r := genRelaySpec(t)
		if i > 0 && rapid.IntRange(0, 3).Draw(t, "sameBidAsPrevious") == 0 {
			// several relays offering the same bid is the normal case in production
			r.Response = c.Relays[i-1].Response
		}
		c.Relays = append(c.Relays, r)
	}
	nb := rapid.IntRange(0, 2).Draw(t, "nBuilderConfigs")
	for i := 0; i < nb; i++ {
		c.BuilderConfigs = append(c.BuilderConfigs, BuilderCfgSpec{
			Key:      rapid.IntRange(0, nKeys+1).Draw(t, "builderCfgKey"),
			Category: rapid.SampledFrom([]string{"standard", "excluded", "privileged", ""}).Draw(t, "category"),
			Factor:   rapid.SampledFrom([]string{"", "0", "100", "1000000000000000000", "1"}).Draw(t, "factor"),
			Offset:   rapid.SampledFrom([]string{"", "0", "-1", "-1000000000000000000", "1000000000000000000", "-2000000000000000000"}).Draw(t, "offset"),
		})
	}
	return Case{Target: "bids", Bids: c}
}

func TestBuilderBids(t *testing.T) { prop(t, genBidsCase) }

var _ = fmt.Sprintf
