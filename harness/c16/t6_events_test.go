package c16

import (
	"context"
	"errors"
	"sync"
	"testing"

	eth2client "github.com/attestantio/go-eth2-client"
	"github.com/attestantio/go-eth2-client/api"
	apiv1 "github.com/attestantio/go-eth2-client/api/v1"
	"github.com/attestantio/go-eth2-client/spec"
	"github.com/attestantio/go-eth2-client/spec/phase0"
	cache "github.com/attestantio/vouch/services/cache/standard"
	bestproposal "github.com/attestantio/vouch/strategies/beaconblockproposal/best"
	"github.com/rs/zerolog"
	"pgregory.net/rapid"

	"verifharness/internal/fakes"
)

// EventSpec is one event from the beacon node's event stream, as go-eth2-client
// delivers it: the data member has the type of the topic.
type EventSpec struct {
	Topic string          `json:"topic"` // head | block
	Slot  uint64          `json:"slot"`
	Root  byte            `json:"root"`
	Block SignedBlockSpec `json:"block"` // what fetching the block of a head event returns
}

// EventsCase drives the event handlers of services/cache/standard and of
// strategies/beaconblockproposal/best.
type EventsCase struct {
	CurrentSlot uint64          `json:"current_slot"`
	Initial     SignedBlockSpec `json:"initial"` // the head block the cache fetches when it starts
	Events      []EventSpec     `json:"events"`
}

type scriptedBlocks struct {
	mu         sync.Mutex
	next       *SignedBlockSpec
	delivered  int
	odd        int
	unhashable int
	hashing    bool // the consumer hashes the block with the client library's accessors
}

func (s *scriptedBlocks) SignedBeaconBlock(context.Context, *api.SignedBeaconBlockOpts) (*api.Response[*spec.VersionedSignedBeaconBlock], error) {
	s.mu.Lock()
	sp := s.next
	s.mu.Unlock()
	b, err := buildSignedBlock(sp)
	if err != nil {
		return nil, err
	}
	if s.hashing && !libraryCanHash(b) {
		// This consumer only uses the client library's accessors on the block; a block the library
		// decoded but cannot hash crashes inside the library.  Not delivered; counted.
		libraryPanics.Add(1)
		s.mu.Lock()
		s.unhashable++
		s.mu.Unlock()
		return nil, errors.New("client library cannot hash the block it decoded")
	}
	s.mu.Lock()
	s.delivered++
	if sp.Envelope != "data" || len(sp.Muts) > 0 {
		s.odd++
	}
	s.mu.Unlock()
	return &api.Response[*spec.VersionedSignedBeaconBlock]{Data: b, Metadata: map[string]any{}}, nil
}

type captureEvents struct {
	handlers map[string][]eth2client.EventHandlerFunc
}

func (e *captureEvents) Events(_ context.Context, topics []string, h eth2client.EventHandlerFunc) error {
	for _, t := range topics {
		e.handlers[t] = append(e.handlers[t], h)
	}
	return nil
}

type errHeaders struct{}

func (errHeaders) BeaconBlockHeader(context.Context, *api.BeaconBlockHeaderOpts) (*api.Response[*apiv1.BeaconBlockHeader], error) {
	return nil, context.DeadlineExceeded
}

func rootOf(b byte) phase0.Root {
	var r phase0.Root
	for i := range r {
		r[i] = b
	}
	return r
}

func runEvents(c *EventsCase, out *outcome) {
	ctx, cancel := context.WithCancel(context.Background())
	defer cancel()
	clock := newClock(c.CurrentSlot)
	blocks := &scriptedBlocks{next: &c.Initial}
	evp := &captureEvents{handlers: map[string][]eth2client.EventHandlerFunc{}}

	out.addPanic(guard(func() {
		_, err := cache.New(ctx,
			cache.WithLogLevel(zerolog.Disabled), cache.WithMonitor(nullMonitor), cache.WithChainTime(clock), cache.WithScheduler(fakes.NewSched()),
			cache.WithEventsProvider(evp), cache.WithSignedBeaconBlockProvider(blocks), cache.WithBeaconBlockHeadersProvider(errHeaders{}))
		if err != nil {
			out.harness = "cannot construct cache: " + err.Error()
		}
	}))
	if len(out.panics) > 0 || out.harness != "" {
		if blocks.delivered > 0 {
			out.nontrivial = true
		}
		return
	}
	bestBlocks := &scriptedBlocks{next: &c.Initial, hashing: true}
	best, err := bestproposal.New(ctx,
		bestproposal.WithLogLevel(zerolog.Disabled), bestproposal.WithTimeout(bestTimeout), bestproposal.WithClientMonitor(nullMonitor),
		bestproposal.WithProcessConcurrency(2), bestproposal.WithEventsProvider(evp), bestproposal.WithChainTimeService(clock),
		bestproposal.WithSpecProvider(specProvider{slotsPerEpoch: 32}), bestproposal.WithProposalProviders(map[string]eth2client.ProposalProvider{"n": &nodeDouble{spec: &NodeSpec{}}}),
		bestproposal.WithSignedBeaconBlockProvider(bestBlocks), bestproposal.WithBlockRootToSlotCache(nullRootToSlot{}))
	if err != nil {
		out.harness = "cannot construct best proposal strategy: " + err.Error()
		return
	}
	_ = best
	if len(evp.handlers["head"]) < 2 || len(evp.handlers["block"]) < 1 {
		out.harness = "expected head handlers of the cache and the strategy and a block handler"
		return
	}
	for i := range c.Events {
		e := &c.Events[i]
		blocks.mu.Lock()
		blocks.next = &e.Block
		blocks.mu.Unlock()
		bestBlocks.mu.Lock()
		bestBlocks.next = &e.Block
		bestBlocks.mu.Unlock()
		var event *apiv1.Event
		switch e.Topic {
		case "head":
			event = &apiv1.Event{Topic: "head", Data: &apiv1.HeadEvent{Slot: phase0.Slot(e.Slot), Block: rootOf(e.Root), State: rootOf(e.Root ^ 0xff)}}
		default:
			event = &apiv1.Event{Topic: "block", Data: &apiv1.BlockEvent{Slot: phase0.Slot(e.Slot), Block: rootOf(e.Root)}}
		}
		for _, h := range evp.handlers[e.Topic] {
			handler := h
			out.addPanic(guard(func() { handler(event) }))
		}
	}
	// first validation layer: a block fetched for a head event (or at start) decoded and was
	// handed to vouch.
	out.nontrivial = blocks.delivered > 0
	if blocks.odd > 0 {
		out.label("events:unusual-block-delivered")
	}
	if bestBlocks.delivered > 0 {
		out.label("events:block-delivered-to-best-strategy")
	}
	if bestBlocks.unhashable > 0 {
		out.label("events:block-unhashable-by-client-library")
	}
}

func genEventsCase(t *rapid.T) Case {
	c := &EventsCase{CurrentSlot: rapid.SampledFrom([]uint64{0, 1, 63, 64, 65, 1000, 1<<31 - 1, 1 << 32, 1 << 40, 1<<63 - 2, 1<<63 - 1}).Draw(t, "currentSlot")} // vouch's own clock
	c.Initial = genSignedBlockSpec(t, c.CurrentSlot)
	n := rapid.IntRange(1, 5).Draw(t, "nEvents")
	for i := 0; i < n; i++ {
		slot := rapid.SampledFrom([]uint64{0, 1, c.CurrentSlot, c.CurrentSlot + 1, c.CurrentSlot - 1, c.CurrentSlot - 64, c.CurrentSlot - 65,
			1 << 31, 1<<32 + 1, 1<<63 - 1, 1 << 63, ^uint64(0) - 1, ^uint64(0)}).Draw(t, "eventSlot")
		if c.CurrentSlot > 70 && rapid.Bool().Draw(t, "oldSlot") {
			slot = c.CurrentSlot - 70
		}
		c.Events = append(c.Events, EventSpec{
			Topic: rapid.SampledFrom([]string{"head", "head", "head", "block"}).Draw(t, "topic"),
			Slot:  slot,
			Root:  rapid.SampledFrom([]byte{0, 1, 2, 0xff}).Draw(t, "eventRoot"),
			Block: genSignedBlockSpec(t, slot),
		})
	}
	return Case{Target: "events", Events: c}
}

func TestEvents(t *testing.T) { prop(t, genEventsCase) }
