package c16

import (
	"context"
	"errors"
	"fmt"
	"sync"
	"testing"
	"time"

	eth2client "github.com/attestantio/go-eth2-client"
	"github.com/attestantio/go-eth2-client/api"
	apiv1 "github.com/attestantio/go-eth2-client/api/v1"
	"github.com/attestantio/go-eth2-client/spec"
	"github.com/attestantio/go-eth2-client/spec/phase0"
	cache "github.com/attestantio/vouch/services/cache/standard"
	bestattdata "github.com/attestantio/vouch/strategies/attestationdata/best"
	majorityattdata "github.com/attestantio/vouch/strategies/attestationdata/majority"
	bestproposal "github.com/attestantio/vouch/strategies/beaconblockproposal/best"
	"github.com/rs/zerolog"
	"pgregory.net/rapid"

	"verifharness/c03world"
	"verifharness/internal/fakes"
)

// EventSpec is one event from the beacon node's event stream, as go-eth2-client
// delivers it: the data member has the type of the topic.
type EventSpec struct {
	Topic string          `json:"topic"` // head | block
	Slot  uint64          `json:"slot"`
	Root  byte            `json:"root"`
	Block SignedBlockSpec `json:"block"` // what fetching the block of a head event returns
	// Further members of a head event (0 = the zero root).
	PrevDep         byte `json:"prev_dep,omitempty"`
	CurDep          byte `json:"cur_dep,omitempty"`
	EpochTransition bool `json:"epoch_transition,omitempty"`
	// NilData: the event carries no data.  The client library never delivers that, but every
	// handler claims to check for it.
	NilData bool `json:"nil_data,omitempty"`
}

// ControllerSpec adds the real controller (services/controller/standard, built in the virtual
// world of c03world) to the consumers of the events.
type ControllerSpec struct {
	MaxProposalDelayMs           uint64 `json:"max_proposal_delay_ms"`
	FastTrack                    bool   `json:"fast_track"`
	VerifySyncCommitteeInclusion bool   `json:"verify_sync_committee_inclusion"`
	Altair                       bool   `json:"altair"`
}

// AttDataProbe asks the majority attestation-data strategy (wired to the cache the events went
// into) for attestation data whose head is the block of one of the events.
type AttDataProbe struct {
	Roots      []byte `json:"roots"`       // head root byte per beacon node
	HeaderSlot uint64 `json:"header_slot"` // slot of the header the node returns for a root the cache does not know
	HeaderErr  string `json:"header_err,omitempty"`
	Strategy   string `json:"strategy"` // majority | best
}

// EventsCase drives the event handlers of services/cache/standard and of
// strategies/beaconblockproposal/best.
type EventsCase struct {
	CurrentSlot uint64          `json:"current_slot"`
	Initial     SignedBlockSpec `json:"initial"` // the head block the cache fetches when it starts
	Events      []EventSpec     `json:"events"`
	Controller  *ControllerSpec `json:"controller,omitempty"`
	AttData     *AttDataProbe   `json:"att_data,omitempty"`
}

type scriptedBlocks struct {
	mu         sync.Mutex
	next       *SignedBlockSpec
	delivered  int
	odd        int
	unhashable int
	hashing    bool // the consumer hashes the block with the client library's accessors
}

func (s *scriptedBlocks) SignedBeaconBlock(context.Context, *api.SignedBeaconBlockOpts) (*api.Response[*spec.VersionedSignedBeaconBlock], error) {
	s.mu.Lock()
	sp := s.next
	s.mu.Unlock()
	b, err := buildSignedBlock(sp)
	if err != nil {
		return nil, err
	}
	if s.hashing && !libraryCanHash(b) {
		// This consumer only uses the client library's accessors on the block; a block the library
		// decoded but cannot hash crashes inside the library.  Not delivered; counted.
		libraryPanics.Add(1)
		s.mu.Lock()
		s.unhashable++
		s.mu.Unlock()
		return nil, errors.New("client library cannot hash the block it decoded")
	}
	s.mu.Lock()
	s.delivered++
	if sp.Envelope != "data" || len(sp.Muts) > 0 {
		s.odd++
	}
	s.mu.Unlock()
	return &api.Response[*spec.VersionedSignedBeaconBlock]{Data: b, Metadata: map[string]any{}}, nil
}

type captureEvents struct {
	handlers map[string][]eth2client.EventHandlerFunc
}

func (e *captureEvents) Events(_ context.Context, topics []string, h eth2client.EventHandlerFunc) error {
	for _, t := range topics {
		e.handlers[t] = append(e.handlers[t], h)
	}
	return nil
}

type errHeaders struct{}

func (errHeaders) BeaconBlockHeader(context.Context, *api.BeaconBlockHeaderOpts) (*api.Response[*apiv1.BeaconBlockHeader], error) {
	return nil, context.DeadlineExceeded
}

// scriptedHeaders answers header requests as the probe says: an error of one of the client's
// kinds, or a header (non-nil, as the decoder guarantees) with the scripted slot.
type scriptedHeaders struct{ probe *AttDataProbe }

func (h scriptedHeaders) BeaconBlockHeader(_ context.Context, opts *api.BeaconBlockHeaderOpts) (*api.Response[*apiv1.BeaconBlockHeader], error) {
	if h.probe == nil {
		return nil, context.DeadlineExceeded
	}
	if h.probe.HeaderErr != "" {
		return nil, clientError(h.probe.HeaderErr, "v1/beacon/headers")
	}
	return &api.Response[*apiv1.BeaconBlockHeader]{Data: &apiv1.BeaconBlockHeader{
		Canonical: true,
		Header:    &phase0.SignedBeaconBlockHeader{Message: &phase0.BeaconBlockHeader{Slot: phase0.Slot(h.probe.HeaderSlot)}},
	}, Metadata: map[string]any{}}, nil
}

type attDataNode struct {
	root byte
}

func (n attDataNode) AttestationData(_ context.Context, opts *api.AttestationDataOpts) (*api.Response[*phase0.AttestationData], error) {
	// slot and committee index echo the request (the client library checks that)
	return &api.Response[*phase0.AttestationData]{Data: &phase0.AttestationData{
		Slot: opts.Slot, Index: opts.CommitteeIndex, BeaconBlockRoot: rootOf(n.root),
		Source: &phase0.Checkpoint{Epoch: 1, Root: rootOf(0x31)}, Target: &phase0.Checkpoint{Epoch: 2, Root: rootOf(0x32)},
	}, Metadata: map[string]any{}}, nil
}

func rootOf(b byte) phase0.Root {
	var r phase0.Root
	for i := range r {
		r[i] = b
	}
	return r
}

func buildEvent(e *EventSpec) *apiv1.Event {
	topic := "block"
	if e.Topic == "head" {
		topic = "head"
	}
	if e.NilData {
		return &apiv1.Event{Topic: topic}
	}
	if topic == "head" {
		return &apiv1.Event{Topic: "head", Data: &apiv1.HeadEvent{Slot: phase0.Slot(e.Slot), Block: rootOf(e.Root), State: rootOf(e.Root ^ 0xff),
			EpochTransition: e.EpochTransition, PreviousDutyDependentRoot: rootOf(e.PrevDep), CurrentDutyDependentRoot: rootOf(e.CurDep)}}
	}
	return &apiv1.Event{Topic: "block", Data: &apiv1.BlockEvent{Slot: phase0.Slot(e.Slot), Block: rootOf(e.Root)}}
}

func runEvents(c *EventsCase, out *outcome) {
	ctx, cancel := context.WithCancel(context.Background())
	defer cancel()
	clock := newClock(c.CurrentSlot)
	blocks := &scriptedBlocks{next: &c.Initial}
	evp := &captureEvents{handlers: map[string][]eth2client.EventHandlerFunc{}}

	var cacheSvc *cache.Service
	out.addPanic(guard(func() {
		var err error
		cacheSvc, err = cache.New(ctx,
			cache.WithLogLevel(zerolog.Disabled), cache.WithMonitor(nullMonitor), cache.WithChainTime(clock), cache.WithScheduler(fakes.NewSched()),
			cache.WithEventsProvider(evp), cache.WithSignedBeaconBlockProvider(blocks), cache.WithBeaconBlockHeadersProvider(scriptedHeaders{probe: c.AttData}))
		if err != nil {
			out.harness = "cannot construct cache: " + err.Error()
		}
	}))
	if len(out.panics) > 0 || out.harness != "" {
		if blocks.delivered > 0 {
			out.nontrivial = true
		}
		return
	}
	bestBlocks := &scriptedBlocks{next: &c.Initial, hashing: true}
	best, err := bestproposal.New(ctx,
		bestproposal.WithLogLevel(zerolog.Disabled), bestproposal.WithTimeout(bestTimeout), bestproposal.WithClientMonitor(nullMonitor),
		bestproposal.WithProcessConcurrency(2), bestproposal.WithEventsProvider(evp), bestproposal.WithChainTimeService(clock),
		bestproposal.WithSpecProvider(specProvider{slotsPerEpoch: 32}), bestproposal.WithProposalProviders(map[string]eth2client.ProposalProvider{"n": &nodeDouble{spec: &NodeSpec{}}}),
		bestproposal.WithSignedBeaconBlockProvider(bestBlocks), bestproposal.WithBlockRootToSlotCache(nullRootToSlot{}))
	if err != nil {
		out.harness = "cannot construct best proposal strategy: " + err.Error()
		return
	}
	_ = best
	if len(evp.handlers["head"]) < 2 || len(evp.handlers["block"]) < 1 {
		out.harness = "expected head handlers of the cache and the strategy and a block handler"
		return
	}
	for i := range c.Events {
		e := &c.Events[i]
		blocks.mu.Lock()
		blocks.next = &e.Block
		blocks.mu.Unlock()
		bestBlocks.mu.Lock()
		bestBlocks.next = &e.Block
		bestBlocks.mu.Unlock()
		event := buildEvent(e)
		for _, h := range evp.handlers[e.Topic] {
			handler := h
			out.addPanic(guard(func() { handler(event) }))
		}
	}
	if c.AttData != nil && cacheSvc != nil {
		runAttDataProbe(ctx, c, clock, cacheSvc, out)
	}
	if c.Controller != nil {
		runControllerEvents(c, out)
	}
	// first validation layer: a block fetched for a head event (or at start) decoded and was
	// handed to vouch.
	out.nontrivial = blocks.delivered > 0
	if blocks.odd > 0 {
		out.label("events:unusual-block-delivered")
	}
	if bestBlocks.delivered > 0 {
		out.label("events:block-delivered-to-best-strategy")
	}
	if bestBlocks.unhashable > 0 {
		out.label("events:block-unhashable-by-client-library")
	}
}

// runAttDataProbe: the attestation data strategies look the head slot of the data up in the
// block-root-to-slot cache, which holds whatever slots the node's block events and headers carried.
func runAttDataProbe(ctx context.Context, c *EventsCase, clock *fakes.VClock, cacheSvc *cache.Service, out *outcome) {
	providers := map[string]eth2client.AttestationDataProvider{}
	for i, r := range c.AttData.Roots {
		providers[fmt.Sprintf("node%d", i)] = attDataNode{root: r}
	}
	if len(providers) == 0 {
		return
	}
	// the request's slot is vouch's own (a duty slot inside the clock's epoch)
	opts := &api.AttestationDataOpts{Slot: phase0.Slot(c.CurrentSlot), CommitteeIndex: 1}
	var err error
	var provider eth2client.AttestationDataProvider
	if c.AttData.Strategy == "best" {
		provider, err = bestattdata.New(ctx, bestattdata.WithLogLevel(zerolog.Disabled), bestattdata.WithClientMonitor(nullMonitor),
			bestattdata.WithProcessConcurrency(2), bestattdata.WithAttestationDataProviders(providers), bestattdata.WithTimeout(200*time.Millisecond),
			bestattdata.WithChainTime(clock), bestattdata.WithBlockRootToSlotCache(cacheSvc))
	} else {
		provider, err = majorityattdata.New(ctx, majorityattdata.WithLogLevel(zerolog.Disabled), majorityattdata.WithClientMonitor(nullMonitor),
			majorityattdata.WithProcessConcurrency(2), majorityattdata.WithAttestationDataProviders(providers), majorityattdata.WithTimeout(200*time.Millisecond),
			majorityattdata.WithChainTime(clock), majorityattdata.WithBlockRootToSlotCache(cacheSvc), majorityattdata.WithThreshold(1))
	}
	if err != nil {
		out.harness = "cannot construct attestation data strategy: " + err.Error()
		return
	}
	out.addPanic(guard(func() {
		if _, err := provider.AttestationData(ctx, opts); err != nil {
			out.label("events:attdata-" + c.AttData.Strategy + "-error")
		} else {
			out.label("events:attdata-" + c.AttData.Strategy + "-ok")
		}
	}))
}

// runControllerEvents delivers the events to the handlers of the real controller.
func runControllerEvents(c *EventsCase, out *outcome) {
	// The controller's clock: the case's current slot, folded into the range in which the virtual
	// clock's time arithmetic does not overflow.
	cs := c.CurrentSlot % (1 << 26)
	p := &c03world.Params{SlotsPerEpoch: 32, SlotSeconds: 12, EpochsPerSyncPeriod: 256, Altair: c.Controller.Altair, AltairForkEpoch: 0,
		MaxProposalDelayMs: c.Controller.MaxProposalDelayMs, MaxAttestationDelayMs: 4000, AttestationAggregationMs: 8000,
		MaxSyncCommitteeMessageMs: 4000, SyncCommitteeAggregationMs: 8000,
		FastTrackAttestations: c.Controller.FastTrack, FastTrackSyncCommittees: c.Controller.FastTrack,
		VerifySyncCommitteeInclusion: c.Controller.VerifySyncCommitteeInclusion && c.Controller.Altair, Validators: []uint64{3, 7}}
	w := c03world.New(p, &c03world.TableSource{}, c03world.Options{Watchdog: 60 * time.Second})
	defer w.Stop()
	if err := w.AdvanceTo(w.StartOfSlot(cs).Add(time.Second)); err != nil {
		out.harness = "controller world: " + err.Error()
		return
	}
	if err := w.Start(true); err != nil {
		out.harness = "controller world: " + err.Error()
		return
	}
	out.label("events:controller")
	// slots relative to the case's clock are re-based on the controller's clock
	rebase := func(slot uint64) uint64 {
		d := slot - c.CurrentSlot
		if d+70 <= 140 { // within 70 slots of the current one, either side
			return cs + d
		}
		return slot
	}
	for i := range c.Events {
		e := c.Events[i]
		e.Slot = rebase(e.Slot)
		event := buildEvent(&e)
		out.addPanic(guard(func() {
			if e.Topic == "head" {
				w.Proc.Ctrl.HandleHeadEvent(event)
			} else {
				w.Proc.Ctrl.HandleBlockEvent(event)
			}
		}))
		if err := w.Quiesce(); err != nil {
			out.harness = "controller world: " + err.Error()
			return
		}
	}
}

func genEventsCase(t *rapid.T) Case {
	c := &EventsCase{CurrentSlot: rapid.SampledFrom([]uint64{0, 1, 63, 64, 65, 1000, 1<<31 - 1, 1 << 32, 1 << 40, 1<<63 - 2, 1<<63 - 1}).Draw(t, "currentSlot")} // vouch's own clock
	c.Initial = genSignedBlockSpec(t, c.CurrentSlot)
	n := rapid.IntRange(1, 5).Draw(t, "nEvents")
	for i := 0; i < n; i++ {
		slot := rapid.SampledFrom([]uint64{0, 1, c.CurrentSlot, c.CurrentSlot + 1, c.CurrentSlot - 1, c.CurrentSlot - 64, c.CurrentSlot - 65,
			1 << 31, 1<<32 + 1, 1<<63 - 1, 1 << 63, ^uint64(0) - 1, ^uint64(0)}).Draw(t, "eventSlot")
		if c.CurrentSlot > 70 && rapid.Bool().Draw(t, "oldSlot") {
			slot = c.CurrentSlot - 70
		}
		c.Events = append(c.Events, EventSpec{
			Topic:           rapid.SampledFrom([]string{"head", "head", "head", "block"}).Draw(t, "topic"),
			Slot:            slot,
			Root:            rapid.SampledFrom([]byte{0, 1, 2, 0xff}).Draw(t, "eventRoot"),
			Block:           genSignedBlockSpec(t, slot),
			PrevDep:         rapid.SampledFrom([]byte{0, 0, 5, 5, 6}).Draw(t, "prevDep"),
			CurDep:          rapid.SampledFrom([]byte{0, 0, 6, 6, 7}).Draw(t, "curDep"),
			EpochTransition: rapid.Bool().Draw(t, "epochTransition"),
			NilData:         rapid.IntRange(0, 19).Draw(t, "nilData") == 0,
		})
	}
	if rapid.IntRange(0, 2).Draw(t, "withAttData") == 0 {
		p := &AttDataProbe{Strategy: rapid.SampledFrom([]string{"majority", "majority", "best"}).Draw(t, "attDataStrategy"),
			HeaderSlot: genU64(t, "headerSlot")}
		if rapid.IntRange(0, 3).Draw(t, "headerFails") == 0 {
			p.HeaderErr = genErrKind(t, "headerErrKind")
		}
		n := rapid.IntRange(1, 3).Draw(t, "nAttDataNodes")
		for i := 0; i < n; i++ {
			p.Roots = append(p.Roots, rapid.SampledFrom([]byte{0, 1, 2, 0xff, 9}).Draw(t, "attDataRoot"))
		}
		c.AttData = p
	}
	if rapid.IntRange(0, 3).Draw(t, "withController") == 0 {
		c.Controller = &ControllerSpec{
			MaxProposalDelayMs:           rapid.SampledFrom([]uint64{0, 1000}).Draw(t, "maxProposalDelay"),
			FastTrack:                    rapid.Bool().Draw(t, "fastTrack"),
			VerifySyncCommitteeInclusion: rapid.Bool().Draw(t, "verifySync"),
			Altair:                       rapid.IntRange(0, 3).Draw(t, "altair") > 0,
		}
	}
	return Case{Target: "events", Events: c}
}

func TestEvents(t *testing.T) { prop(t, genEventsCase) }
