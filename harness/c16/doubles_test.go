package c16

import (
	"context"
	"encoding/json"
	"errors"
	"fmt"
	"strings"
	"sync"
	"time"
	"unicode/utf8"

	eth2client "github.com/attestantio/go-eth2-client"
	"github.com/attestantio/go-eth2-client/api"
	"github.com/attestantio/go-eth2-client/spec/phase0"
	nullmetrics "github.com/attestantio/vouch/services/metrics/null"
	"github.com/google/uuid"
	e2types "github.com/wealdtech/go-eth2-types/v2"
	e2wtypes "github.com/wealdtech/go-eth2-wallet-types/v2"
	"github.com/wealdtech/go-majordomo"
	"pgregory.net/rapid"
)

// Blob is text that may not be valid UTF-8; it survives a JSON round trip.
type Blob struct {
	S string `json:"s,omitempty"`
	B []byte `json:"b,omitempty"`
}

func blobOf(b []byte) Blob {
	if utf8.Valid(b) {
		return Blob{S: string(b)}
	}
	return Blob{B: append([]byte{}, b...)}
}

func (b Blob) Bytes() []byte {
	if b.B != nil {
		return b.B
	}
	return []byte(b.S)
}

func (b Blob) String() string { return string(b.Bytes()) }

// ---------------------------------------------------------------------------
// keys and accounts

const nKeys = 4

var (
	keyOnce  sync.Once
	privKeys [nKeys]*e2types.BLSPrivateKey
	pubKeys  [nKeys]phase0.BLSPubKey
)

func initKeys() {
	keyOnce.Do(func() {
		if err := e2types.InitBLS(); err != nil {
			panic(err)
		}
		for i := 0; i < nKeys; i++ {
			var seed [32]byte
			seed[31] = byte(i + 1)
			seed[0] = 0x01
			k, err := e2types.BLSPrivateKeyFromBytes(seed[:])
			if err != nil {
				panic(err)
			}
			privKeys[i] = k
			copy(pubKeys[i][:], k.PublicKey().Marshal())
		}
	})
}

// pubkeyByIdx: 0..nKeys-1 are real keys, nKeys is the zero key, anything else
// is a key nobody configured.
func pubkeyByIdx(i int) phase0.BLSPubKey {
	initKeys()
	switch {
	case i >= 0 && i < nKeys:
		return pubKeys[i]
	case i == nKeys:
		return phase0.BLSPubKey{}
	default:
		var k phase0.BLSPubKey
		for j := range k {
			k[j] = byte(0xa0 + i)
		}
		return k
	}
}

type plainAccount struct {
	idx  int
	name string
}

func (a *plainAccount) ID() uuid.UUID                { return uuid.UUID{byte(a.idx + 1)} }
func (a *plainAccount) Name() string                 { return a.name }
func (a *plainAccount) PublicKey() e2types.PublicKey { initKeys(); return privKeys[a.idx].PublicKey() }
func (a *plainAccount) Sign(_ context.Context, data []byte) (e2types.Signature, error) {
	initKeys()
	return privKeys[a.idx].Sign(data), nil
}

type fakeWallet struct{ name string }

func (w *fakeWallet) ID() uuid.UUID   { return uuid.UUID{0xee} }
func (w *fakeWallet) Type() string    { return "fake" }
func (w *fakeWallet) Name() string    { return w.name }
func (w *fakeWallet) Version() uint   { return 1 }
func (w *fakeWallet) Accounts(context.Context) <-chan e2wtypes.Account {
	ch := make(chan e2wtypes.Account)
	close(ch)
	return ch
}

type walletAccount struct {
	plainAccount
	wallet *fakeWallet
}

func (a *walletAccount) Wallet() e2wtypes.Wallet { return a.wallet }

// AccountSpec describes an account in a case.
type AccountSpec struct {
	Kind   string `json:"kind"` // nil | plain | wallet
	Key    int    `json:"key"`
	Name   string `json:"name,omitempty"`
	Wallet string `json:"wallet,omitempty"`
}

func (s AccountSpec) build() e2wtypes.Account {
	k := s.Key
	if k < 0 || k >= nKeys {
		k = 0
	}
	switch s.Kind {
	case "plain":
		return &plainAccount{idx: k, name: s.Name}
	case "wallet":
		return &walletAccount{plainAccount: plainAccount{idx: k, name: s.Name}, wallet: &fakeWallet{name: s.Wallet}}
	default:
		return nil
	}
}

// ---------------------------------------------------------------------------
// monitors

var nullMonitor = nullmetrics.New()

// doneMonitor is a metrics.ClientMonitor that signals every ClientOperation.
type doneMonitor struct {
	ch chan string
}

func newDoneMonitor() *doneMonitor { return &doneMonitor{ch: make(chan string, 64)} }
func (m *doneMonitor) ClientOperation(provider string, name string, _ bool, _ time.Duration) {
	select {
	case m.ch <- provider + "|" + name:
	default:
	}
}
func (*doneMonitor) StrategyOperation(string, string, string, time.Duration) {}
func (*doneMonitor) Presenter() string                                      { return "done" }

// ---------------------------------------------------------------------------
// majordomo double

// FetchScript is what one location returns.
type FetchScript struct {
	Kind string `json:"kind"` // data | notfound | error
	Data Blob   `json:"data,omitempty"`
}

type fakeMajordomo struct {
	mu      sync.Mutex
	scripts map[string]FetchScript
	def     FetchScript
	fetched []string
}

func (m *fakeMajordomo) Fetch(_ context.Context, url string) ([]byte, error) {
	m.mu.Lock()
	m.fetched = append(m.fetched, url)
	s, ok := m.scripts[url]
	m.mu.Unlock()
	if !ok {
		s = m.def
	}
	switch s.Kind {
	case "data":
		return append([]byte{}, s.Data.Bytes()...), nil
	case "notfound":
		return nil, majordomo.ErrNotFound
	default:
		return nil, errors.New("scripted fetch failure")
	}
}

func (m *fakeMajordomo) RegisterConfidant(context.Context, majordomo.Confidant) error { return nil }

// ---------------------------------------------------------------------------
// spec / domain providers

type specProvider struct{ slotsPerEpoch uint64 }

func (s specProvider) Spec(context.Context, *api.SpecOpts) (*api.Response[map[string]any], error) {
	return &api.Response[map[string]any]{Data: map[string]any{
		"SLOTS_PER_EPOCH":                  s.slotsPerEpoch,
		"SECONDS_PER_SLOT":                 12 * time.Second,
		"DOMAIN_APPLICATION_BUILDER":       phase0.DomainType{0x00, 0x00, 0x00, 0x01},
		"DOMAIN_BEACON_ATTESTER":           phase0.DomainType{0x01, 0x00, 0x00, 0x00},
		"DOMAIN_BEACON_PROPOSER":           phase0.DomainType{0x00, 0x00, 0x00, 0x00},
		"DOMAIN_RANDAO":                    phase0.DomainType{0x02, 0x00, 0x00, 0x00},
		"DOMAIN_SELECTION_PROOF":           phase0.DomainType{0x05, 0x00, 0x00, 0x00},
		"DOMAIN_AGGREGATE_AND_PROOF":       phase0.DomainType{0x06, 0x00, 0x00, 0x00},
		"DOMAIN_SYNC_COMMITTEE":            phase0.DomainType{0x07, 0x00, 0x00, 0x00},
		"DOMAIN_SYNC_COMMITTEE_SELECTION_PROOF": phase0.DomainType{0x08, 0x00, 0x00, 0x00},
		"DOMAIN_CONTRIBUTION_AND_PROOF":    phase0.DomainType{0x09, 0x00, 0x00, 0x00},
		"DOMAIN_BLOB_SIDECAR":              phase0.DomainType{0x0b, 0x00, 0x00, 0x00},
		"TARGET_AGGREGATORS_PER_COMMITTEE": uint64(16),
	}, Metadata: map[string]any{}}, nil
}

type domainProvider struct{}

func (domainProvider) Domain(_ context.Context, t phase0.DomainType, _ phase0.Epoch) (phase0.Domain, error) {
	var d phase0.Domain
	copy(d[:], t[:])
	d[31] = 0x16
	return d, nil
}

func (domainProvider) GenesisDomain(_ context.Context, t phase0.DomainType) (phase0.Domain, error) {
	var d phase0.Domain
	copy(d[:], t[:])
	d[31] = 0x16
	return d, nil
}

// ---------------------------------------------------------------------------
// error kinds of the client library

// errKinds are the kinds of error go-eth2-client returns to vouch: a plain error, an
// *api.Error for a non-2xx answer (bare, as SignedBeaconBlock returns it, or joined to a
// context message, as most other calls do), a context error, or the client's state errors.
var errKinds = []string{"error", "error", "api400", "api404", "api404", "api404-joined", "api500", "api503", "api503-joined",
	"ctx-canceled", "ctx-deadline", "not-active", "not-synced"}

func genErrKind(t *rapid.T, label string) string { return rapid.SampledFrom(errKinds).Draw(t, label) }

// clientError builds the error of the given kind ("" and unknown kinds are plain errors).
func clientError(kind string, what string) error {
	apiErr := func(code int, body string) error {
		return &api.Error{Method: "GET", Endpoint: "/eth/" + what, StatusCode: code, Data: []byte(body)}
	}
	switch kind {
	case "api400":
		return apiErr(400, `{"code":400,"message":"BAD_REQUEST: invalid request"}`)
	case "api404":
		return apiErr(404, `{"code":404,"message":"NOT_FOUND: not found"}`)
	case "api404-joined":
		return errors.Join(errors.New("failed to request "+what), apiErr(404, `{"code":404,"message":"NOT_FOUND"}`))
	case "api500":
		return apiErr(500, `{"code":500,"message":"INTERNAL_SERVER_ERROR"}`)
	case "api503":
		return apiErr(503, "")
	case "api503-joined":
		return errors.Join(errors.New("failed to request "+what), apiErr(503, `{"code":503,"message":"syncing"}`))
	case "ctx-canceled":
		return errors.Join(errors.New("failed to call GET endpoint"), context.Canceled)
	case "ctx-deadline":
		return errors.Join(errors.New("failed to call GET endpoint"), context.DeadlineExceeded)
	case "not-active":
		return eth2client.ErrNotActive
	case "not-synced":
		return eth2client.ErrNotSynced
	}
	return errors.New("scripted failure of " + what)
}

// ---------------------------------------------------------------------------
// boundary values of unsigned 64-bit inputs

// boundaries are the classes every numeric input whose decoder admits the full uint64 range is
// drawn from; the extremes are listed more than once so that one list of values often holds
// several different ones (spans that wrap, sums that overflow).
var boundaries = []uint64{0, 0, 0, 1, 2, 7, 100, 1<<31 - 1, 1 << 31, 1<<31 + 1, 1<<32 - 1, 1 << 32, 1<<32 + 1,
	1<<63 - 1, 1<<63 - 1, 1 << 63, 1 << 63, ^uint64(0) - 1, ^uint64(0), ^uint64(0), ^uint64(0)}

func genU64(t *rapid.T, label string) uint64 { return rapid.SampledFrom(boundaries).Draw(t, label) }

// boundaryStrings are the same classes (and the first values beyond the range) as decimal text.
var boundaryStrings = []string{"0", "1", "2", "100", "2147483647", "2147483648", "2147483649", "4294967295", "4294967296", "4294967297",
	"9223372036854775807", "9223372036854775808", "18446744073709551614", "18446744073709551615", "18446744073709551616", "-1"}

// ---------------------------------------------------------------------------
// small helpers

func hexOf(b []byte) string { return fmt.Sprintf("%#x", b) }

func mustJSON(v any) string {
	b, err := json.Marshal(v)
	if err != nil {
		panic(err)
	}
	return string(b)
}

func clip(s string, n int) string {
	if len(s) > n {
		return s[:n] + "…"
	}
	return s
}

func containsFold(s, sub string) bool { return strings.Contains(strings.ToLower(s), strings.ToLower(sub)) }
