// Package c16 decides property C16: no data that a beacon node, a relay or a
// configuration source can deliver makes vouch panic or die with a fatal
// runtime error; the affected call ends with an error or a fallback.
//
// Eight target families (see DESIGN.md C16) share one Case union so that every
// failing input is a plain JSON regression file.  The only oracle is: no panic,
// no fatal error, the call returns.
//
// Some of the code under test runs on goroutines that vouch starts itself; a
// panic there cannot be recovered and kills the process.  Every rapid target and
// the replay test therefore run in a supervised child process: the child writes
// the case to a journal file before executing it, the parent turns a crash of the
// child into an attributed violation (signature from the top-most vouch frame of
// the crash output) after confirming that the journalled case reproduces it.
package c16

import (
	"bytes"
	"encoding/json"
	"fmt"
	"os"
	"os/exec"
	"path/filepath"
	"regexp"
	"runtime/debug"
	"strconv"
	"strings"
	"sync"
	"testing"
	"time"

	"github.com/rs/zerolog"
	"github.com/spf13/viper"
	"pgregory.net/rapid"

	"verifharness/internal/ev"
)

const (
	childEnv   = "C16_CHILD"
	journalEnv = "C16_JOURNAL"
	vouchPath  = "github.com/attestantio/vouch/"
)

// Case is the union of the inputs of all targets; exactly one member is set.
type Case struct {
	Target     string          `json:"target"`
	Propose    *ProposeCase    `json:"propose,omitempty"`
	Bids       *BidsCase       `json:"bids,omitempty"`
	Best       *BestCase       `json:"best,omitempty"`
	ExecConfig *ExecConfigCase `json:"exec_config,omitempty"`
	Duties     *DutiesCase     `json:"duties,omitempty"`
	Events     *EventsCase     `json:"events,omitempty"`
	Classifier *ClassifierCase `json:"classifier,omitempty"`
	Graffiti   *GraffitiCase   `json:"graffiti,omitempty"`
	Auction    *AuctionCase    `json:"auction,omitempty"`
}

// panicRec is one recovered panic.
type panicRec struct {
	Sig    string
	Value  string
	Frames string
}

// outcome is what running a case produced.
type outcome struct {
	nontrivial bool
	labels     []string
	panics     []*panicRec
	harness    string // non-empty: the harness itself could not run the case
	mu         sync.Mutex
}

func (o *outcome) label(l string) { o.mu.Lock(); o.labels = append(o.labels, l); o.mu.Unlock() }
func (o *outcome) addPanic(p *panicRec) {
	if p == nil {
		return
	}
	o.mu.Lock()
	o.panics = append(o.panics, p)
	o.mu.Unlock()
}

// guard runs fn and converts a panic into a record whose signature names the
// top-most vouch frame of the panicking stack.
func guard(fn func()) (rec *panicRec) {
	defer func() {
		if r := recover(); r != nil {
			stack := string(debug.Stack())
			sig, frames := sigFromStack(stack)
			rec = &panicRec{Sig: sig + ":" + panicClass(fmt.Sprint(r)), Value: fmt.Sprint(r), Frames: frames}
		}
	}()
	fn()
	return nil
}

// panicClass names the kind of run-time failure, so that a listed finding does not
// hide a different failure in the same function.
func panicClass(msg string) string {
	switch {
	case strings.Contains(msg, "nil pointer dereference"), strings.Contains(msg, "nil map"):
		return "nil-deref"
	case strings.Contains(msg, "cannot convert slice"):
		return "slice-to-array"
	case strings.Contains(msg, "makeslice"), strings.Contains(msg, "makechan"):
		return "make-size"
	case strings.Contains(msg, "index out of range"):
		return "index-range"
	case strings.Contains(msg, "slice bounds out of range"):
		return "slice-bounds"
	case strings.Contains(msg, "interface conversion"):
		return "type-assertion"
	case strings.Contains(msg, "divide by zero"), strings.Contains(msg, "division by zero"):
		return "div-zero"
	case strings.Contains(msg, "concurrent map"):
		return "concurrent-map"
	case strings.Contains(msg, "out of memory"), strings.Contains(msg, "cannot allocate"):
		return "out-of-memory"
	case strings.Contains(msg, "stack overflow"), strings.Contains(msg, "stack exceeds"):
		return "stack-overflow"
	case strings.Contains(msg, "too large to convert"):
		return "int-range"
	case strings.Contains(msg, "closed channel"):
		return "closed-channel"
	case strings.Contains(msg, "all goroutines are asleep"):
		return "deadlock"
	}
	return "other"
}

var frameArgs = regexp.MustCompile(`\([^()]*\)$`)
var closureSuffix = regexp.MustCompile(`^(func\d+|gowrap\d+|\d+)$`)

// parseFrame splits a traceback function line into package path and plain
// function name.
func parseFrame(line string) (pkg string, fn string) {
	line = strings.TrimSpace(line)
	if strings.HasPrefix(line, "created by ") {
		return "", ""
	}
	line = frameArgs.ReplaceAllString(line, "")
	// generic instantiation markers
	line = strings.ReplaceAll(line, "[...]", "")
	slash := strings.LastIndex(line, "/")
	dot := strings.Index(line[slash+1:], ".")
	if dot < 0 {
		return "", ""
	}
	pkg = line[:slash+1+dot]
	rest := line[slash+1+dot+1:]
	parts := strings.Split(rest, ".")
	for len(parts) > 1 && closureSuffix.MatchString(parts[len(parts)-1]) {
		parts = parts[:len(parts)-1]
	}
	fn = parts[len(parts)-1]
	return pkg, fn
}

// sigFromStack derives "panic:<vouch package dir>/<file>:<func>" from a Go
// traceback (either debug.Stack() taken inside a deferred recover, or the crash
// output of a process).  It returns the signature and the first frames.
func sigFromStack(stack string) (string, string) {
	lines := strings.Split(stack, "\n")
	start := 0
	for i, l := range lines {
		if strings.HasPrefix(l, "panic(") {
			start = i + 2
			break
		}
	}
	if start == 0 {
		// crash output: start at the first goroutine header after the panic/fatal line
		seen := false
		for i, l := range lines {
			if strings.HasPrefix(l, "panic: ") || strings.HasPrefix(l, "fatal error: ") {
				seen = true
			}
			if seen && strings.HasPrefix(l, "goroutine ") {
				start = i + 1
				break
			}
		}
	}
	var frames []string
	vouchSig, libSig := "", ""
	viaUtil := false
	for i := start; i+1 < len(lines); i++ {
		l := lines[i]
		if l == "" {
			break // end of this goroutine's block
		}
		if strings.HasPrefix(l, "\t") || strings.HasPrefix(l, "goroutine ") {
			continue
		}
		pkg, fn := parseFrame(l)
		if pkg == "" {
			continue
		}
		loc := strings.TrimSpace(lines[i+1])
		file := loc
		if c := strings.LastIndex(loc, ":"); c > 0 {
			file = loc[:c]
		}
		if strings.HasPrefix(pkg, "verifharness/") && len(frames) > 0 {
			break
		}
		if len(frames) < 8 {
			locShort := loc
			if sp := strings.Index(locShort, " "); sp > 0 {
				locShort = locShort[:sp]
			}
			frames = append(frames, pkg[strings.LastIndex(pkg, "/")+1:]+"."+fn+" @ "+filepath.Base(locShort))
		}
		if strings.HasPrefix(pkg, vouchPath) && (vouchSig == "" || viaUtil) {
			// vouch's util helpers (conversions, ValidatorPubkey) are shared by dozens of call sites:
			// the finding is named after the first caller outside util, if there is one.
			viaUtil = pkg == vouchPath+"util"
			vouchSig = "panic:" + strings.TrimPrefix(pkg, vouchPath) + "/" + filepath.Base(file) + ":" + fn
		}
		if libSig == "" && !strings.HasPrefix(pkg, "runtime") && !strings.HasPrefix(pkg, "testing") &&
			!strings.HasPrefix(pkg, "verifharness/") && !strings.HasPrefix(pkg, "pgregory.net/") && pkg != "panic" {
			libSig = "panic-outside-vouch:" + pkg + "/" + filepath.Base(file) + ":" + fn
		}
	}
	sig := vouchSig
	if sig == "" {
		sig = libSig
	}
	if sig == "" {
		sig = "panic:unattributed"
	}
	return sig, strings.Join(frames, " <- ")
}

// resetGlobals puts the global state vouch reads back to a fixed baseline.
func resetGlobals() {
	zerolog.SetGlobalLevel(zerolog.Disabled)
	viper.Reset()
	viper.Set("timeout", "2s")
}

var journalPath = os.Getenv(journalEnv)

func journal(c *Case) {
	if journalPath == "" {
		return
	}
	b, err := json.Marshal(map[string]any{"property": "C16", "signature": "journal", "case": c})
	if err != nil {
		return
	}
	_ = os.WriteFile(journalPath, b, 0o644)
}

const caseWatchdog = 90 * time.Second

// check runs one case and judges it.
func check(t ev.TB, c *Case) {
	journal(c)
	resetGlobals()
	out := &outcome{}
	done := make(chan struct{})
	go func() {
		defer close(done)
		out.addPanic(guard(func() { dispatch(c, out) }))
	}()
	select {
	case <-done:
	case <-time.After(caseWatchdog):
		ev.Inconclusive("watchdog: case of target " + c.Target + " did not finish in " + caseWatchdog.String())
		t.Fatalf("harness: watchdog expired for target %s", c.Target)
		return
	}
	labels := append([]string{c.Target + ":cases"}, out.labels...)
	if out.nontrivial {
		labels = append(labels, c.Target+":nontrivial")
	}
	ev.Case(out.nontrivial, ev.Hash(c), labels...)
	if out.nontrivial {
		ev.Sample(c)
	}
	if out.harness != "" {
		t.Fatalf("harness problem (%s): %s", c.Target, out.harness)
		return
	}
	for _, p := range out.panics {
		ev.Violation(t, p.Sig, c, "target %s: panic %q; frames: %s", c.Target, p.Value, p.Frames)
	}
}

func dispatch(c *Case, out *outcome) {
	switch {
	case c.Target == "execconfig" && c.ExecConfig != nil:
		runExecConfig(c.ExecConfig, out)
	case c.Target == "best" && c.Best != nil:
		runBest(c.Best, out)
	case c.Target == "propose" && c.Propose != nil:
		runPropose(c.Propose, out)
	case c.Target == "bids" && c.Bids != nil:
		runBids(c.Bids, out)
	case c.Target == "duties" && c.Duties != nil:
		runDuties(c.Duties, out)
	case c.Target == "events" && c.Events != nil:
		runEvents(c.Events, out)
	case c.Target == "classifier" && c.Classifier != nil:
		runClassifier(c.Classifier, out)
	case c.Target == "graffiti" && c.Graffiti != nil:
		runGraffiti(c.Graffiti, out)
	case c.Target == "auction" && c.Auction != nil:
		runAuction(c.Auction, out)
	default:
		out.harness = "case without a known target: " + c.Target
	}
}

// ---------------------------------------------------------------------------
// supervisor

func isChild() bool { return os.Getenv(childEnv) == "1" }

type childResult struct {
	exit    int
	output  string
	outFile string
	journal string
}

var childSeq int

func runChild(t *testing.T, testName string, seedBump int, extraEnv ...string) childResult {
	childSeq++
	var args []string
	for _, a := range os.Args[1:] {
		switch {
		case strings.HasPrefix(a, "-test.run="), strings.HasPrefix(a, "-test.fuzz"), strings.HasPrefix(a, "-test.count="):
			continue
		case strings.HasPrefix(a, "-rapid.seed=") && seedBump != 0:
			n, _ := strconv.ParseUint(strings.TrimPrefix(a, "-rapid.seed="), 10, 64)
			a = "-rapid.seed=" + strconv.FormatUint(n+uint64(seedBump)*7919, 10)
		}
		args = append(args, a)
	}
	args = append(args, "-test.run=^"+testName+"$", "-test.count=1")
	cwd, _ := os.Getwd()
	res := childResult{journal: filepath.Join(cwd, fmt.Sprintf("journal-%s-%d-%d.json", testName, os.Getpid(), childSeq))}
	cmd := exec.Command(os.Args[0], args...)
	cmd.Env = append(os.Environ(), childEnv+"=1", journalEnv+"="+res.journal)
	if p := os.Getenv("VERIF_OUT"); p != "" {
		res.outFile = fmt.Sprintf("%s.worker-%s-%d", p, testName, childSeq)
		cmd.Env = append(cmd.Env, "VERIF_OUT="+res.outFile)
	}
	cmd.Env = append(cmd.Env, extraEnv...)
	var buf bytes.Buffer
	cmd.Stdout = &buf
	cmd.Stderr = &buf
	err := cmd.Run()
	res.output = buf.String()
	if err != nil {
		res.exit = -1
		if ee, ok := err.(*exec.ExitError); ok {
			res.exit = ee.ExitCode()
		}
	}
	return res
}

func tailStr(s string, n int) string {
	if len(s) > n {
		return "…" + s[len(s)-n:]
	}
	return s
}

func childRecordedViolation(res childResult) bool {
	if res.outFile == "" {
		return strings.Contains(res.output, "VIOLATION-DETAIL")
	}
	b, err := os.ReadFile(res.outFile)
	if err != nil {
		return strings.Contains(res.output, "VIOLATION-DETAIL")
	}
	var o struct {
		Violations []json.RawMessage `json:"violations"`
	}
	_ = json.Unmarshal(b, &o)
	return len(o.Violations) > 0
}

// crashText returns the crash part of a child's output if the child died from an
// unrecovered panic or a fatal runtime error (and not from the test timeout).
func crashText(output string) string {
	idx := -1
	for _, marker := range []string{"\npanic: ", "\nfatal error: "} {
		if i := strings.Index("\n"+output, marker); i >= 0 && (idx < 0 || i < idx) {
			idx = i
		}
	}
	if idx < 0 {
		return ""
	}
	txt := ("\n" + output)[idx+1:]
	if strings.HasPrefix(txt, "panic: test timed out") {
		return ""
	}
	return txt
}

// supervised runs body in a child process and attributes a crash of the child.
func supervised(t *testing.T, body func(t *testing.T)) {
	if isChild() {
		body(t)
		return
	}
	const maxAttempts = 6
	for attempt := 0; attempt < maxAttempts; attempt++ {
		res := runChild(t, t.Name(), attempt)
		if res.exit == 0 {
			_ = os.Remove(res.journal)
			return
		}
		if childRecordedViolation(res) {
			t.Fatalf("child reported a violation:\n%s", tailStr(res.output, 4000))
		}
		crash := crashText(res.output)
		if crash == "" {
			t.Fatalf("harness: child of %s failed without a violation or a crash (exit %d):\n%s", t.Name(), res.exit, tailStr(res.output, 6000))
		}
		first := strings.SplitN(crash, "\n", 2)[0]
		sig, frames := sigFromStack(crash)
		sig += ":" + panicClass(first)
		var c Case
		if _, err := ev.LoadCase(res.journal, &c); err != nil {
			t.Fatalf("harness: child crashed (%s) but the journal is unreadable: %v\n%s", sig, err, tailStr(crash, 3000))
		}
		// Confirm that the journalled case is the one that crashes (a goroutine left over
		// from an earlier case could have been the culprit).
		if t.Name() != "TestReplay" {
			conf := runChild(t, "TestReplay", 0, "VERIF_REPLAY_FILE="+res.journal, "VERIF_REPLAY_DIR=")
			confCrash := crashText(conf.output)
			confSig, _ := sigFromStack(confCrash)
			confSig += ":" + panicClass(strings.SplitN(confCrash, "\n", 2)[0])
			if conf.exit == 0 || confCrash == "" || confSig != sig {
				ev.Inconclusive("crash " + sig + " of " + t.Name() + " did not reproduce from the journalled case")
				t.Fatalf("harness: child crashed (%s) but the journalled case does not reproduce it (replay exit %d, sig %q):\n%s",
					sig, conf.exit, confSig, tailStr(crash, 3000))
			}
		}
		if ev.Violation(t, sig, &c, "target %s: process crash on a goroutine started by vouch: %s; frames: %s", c.Target, first, frames) {
			return
		}
		// a listed open finding: carry on searching with another seed
	}
	t.Fatalf("harness: child of %s kept crashing on listed findings; the generator has to avoid their triggers", t.Name())
}

// prop registers a supervised rapid property.
func prop(t *testing.T, gen func(*rapid.T) Case) {
	supervised(t, func(t *testing.T) {
		rapid.Check(t, func(rt *rapid.T) {
			c := gen(rt)
			check(rt, &c)
		})
	})
}

// TestReplay re-executes a saved case without the property library.
func TestReplay(t *testing.T) {
	f := ev.ReplayFile()
	if f == "" {
		t.Skip("no replay file")
	}
	supervised(t, func(t *testing.T) {
		var c Case
		if _, err := ev.LoadCase(f, &c); err != nil {
			t.Fatalf("harness: cannot load %s: %v", f, err)
		}
		check(t, &c)
	})
	if !isChild() {
		ev.ReplayPassed()
	}
}
