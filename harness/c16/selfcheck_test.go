package c16

import (
	"testing"

	"github.com/attestantio/go-eth2-client/spec/phase0"
)

// TestTemplates is a self-check of the harness: every unmutated block, proposal
// and bid template must be accepted by the client libraries' decoders (otherwise
// the generators would silently deliver nothing but decoder errors).
func TestTemplates(t *testing.T) {
	initKeys()
	for _, v := range versions {
		for _, blinded := range []bool{false, true} {
			s := ProposalSpec{Outcome: "ok", Version: v, Blinded: blinded, ConsensusValue: "1", ExecutionValue: "2", Envelope: "data",
				Params: BlockParams{Slot: 33, ProposerIndex: 1, Randao: 0xc0, FeeRecipient: 0x11, PayloadState: 0x52, BlockNumber: 1, NAttestations: 2}}
			p, err := buildProposal(&s, phase0.Slot(33), randaoOf(0xc0))
			if err != nil || p == nil {
				t.Fatalf("harness: proposal template %s blinded=%v does not decode: %v", v, blinded, err)
			}
			if _, err := p.BodyRoot(); err != nil {
				t.Fatalf("harness: proposal template %s blinded=%v has no body root: %v", v, blinded, err)
			}
		}
		bs := SignedBlockSpec{Outcome: "ok", Version: v, Envelope: "data", Params: BlockParams{Slot: 5, FeeRecipient: 0x11, PayloadState: 0x52, NAttestations: 1}}
		b, err := buildSignedBlock(&bs)
		if err != nil || b == nil || !libraryCanHash(b) {
			t.Fatalf("harness: signed block template %s does not decode: %v", v, err)
		}
		if _, err := b.Root(); err != nil {
			t.Fatalf("harness: signed block template %s has no root: %v", v, err)
		}
	}
	// A fully valid bid must win an auction with both strategies (real HTTP client and decoder).
	for _, strategy := range []string{"best", "deadline"} {
		for _, v := range []string{"bellatrix", "capella", "deneb"} {
			c := &BidsCase{Strategy: strategy, Slot: 100, Pubkey: 0, Relays: []RelaySpec{{UserPubkey: "match", ConfigPubkey: "none", MinValue: "0",
				Response: RelayResponse{Status: 200, ContentType: "application/json", Bid: BidSpec{Version: v, VersionIn: "body", Envelope: "data",
					Value: "1000000000000000000", FeeRecipient: 0x11, Timestamp: "ok", ParentHash: "ok", BuilderKey: 0, Sign: "ok"}}}}}
			resetGlobals()
			out := &outcome{}
			runBids(c, out)
			won := false
			for _, l := range out.labels {
				if l == "bids:winner" {
					won = true
				}
			}
			if !won || len(out.panics) > 0 || out.harness != "" {
				t.Fatalf("harness: a valid %s bid does not win with strategy %s (labels %v, harness %q)", v, strategy, out.labels, out.harness)
			}
		}
	}
}
