package c16

import (
	"context"
	"encoding/json"
	"errors"
	"fmt"
	"sync"
	"sync/atomic"
	"testing"
	"time"

	"github.com/attestantio/go-block-relay/services/blockauctioneer"
	builderclient "github.com/attestantio/go-builder-client"
	builderapi "github.com/attestantio/go-builder-client/api"
	builderspec "github.com/attestantio/go-builder-client/spec"
	eth2client "github.com/attestantio/go-eth2-client"
	"github.com/attestantio/go-eth2-client/api"
	apiv1deneb "github.com/attestantio/go-eth2-client/api/v1/deneb"
	"github.com/attestantio/go-eth2-client/spec"
	"github.com/attestantio/go-eth2-client/spec/bellatrix"
	"github.com/attestantio/go-eth2-client/spec/capella"
	"github.com/attestantio/go-eth2-client/spec/phase0"
	"github.com/attestantio/vouch/services/beaconblockproposer"
	proposer "github.com/attestantio/vouch/services/beaconblockproposer/standard"
	"github.com/attestantio/vouch/services/graffitiprovider"
	dynamicgraffiti "github.com/attestantio/vouch/services/graffitiprovider/dynamic"
	staticgraffiti "github.com/attestantio/vouch/services/graffitiprovider/static"
	"github.com/rs/zerolog"
	e2wtypes "github.com/wealdtech/go-eth2-wallet-types/v2"
	"pgregory.net/rapid"
)

// GraffitiProviderSpec selects and scripts a graffiti provider.
type GraffitiProviderSpec struct {
	Kind     string      `json:"kind"` // none | static | dynamic | error
	Static   Blob        `json:"static,omitempty"`
	Location string      `json:"location,omitempty"`
	Fallback string      `json:"fallback,omitempty"`
	Primary  FetchScript `json:"primary,omitempty"`
	Second   FetchScript `json:"second,omitempty"`
}

type errGraffiti struct{}

func (errGraffiti) Graffiti(context.Context, phase0.Slot, phase0.ValidatorIndex) ([]byte, error) {
	return nil, errors.New("scripted graffiti failure")
}

func (g *GraffitiProviderSpec) build(ctx context.Context) (graffitiprovider.Service, *fakeMajordomo, error) {
	switch g.Kind {
	case "static":
		s, err := staticgraffiti.New(ctx, staticgraffiti.WithLogLevel(zerolog.Disabled), staticgraffiti.WithGraffiti(g.Static.Bytes()))
		return s, nil, err
	case "dynamic":
		// Every location resolves to the primary script except the fallback location.
		md := &fakeMajordomo{def: g.Primary, scripts: map[string]FetchScript{}}
		if g.Fallback != "" {
			md.scripts[g.Fallback] = g.Second
		}
		params := []dynamicgraffiti.Parameter{dynamicgraffiti.WithLogLevel(zerolog.Disabled), dynamicgraffiti.WithMajordomo(md), dynamicgraffiti.WithLocation(g.Location)}
		if g.Fallback != "" {
			params = append(params, dynamicgraffiti.WithFallbackLocation(g.Fallback))
		}
		s, err := dynamicgraffiti.New(ctx, params...)
		return s, md, err
	case "error":
		return errGraffiti{}, nil, nil
	default:
		return nil, nil, nil
	}
}

// UnblindSpec is one relay known to the auctioneer.
type UnblindSpec struct {
	CanUnblind bool   `json:"can_unblind"`
	Script     string `json:"script"` // ok | err400 | err
	// Latency of the relay's answer, relative to the deadline of the context Propose is called
	// with: now | barrier (all barrier relays of the case answer together) | just-after (the
	// answer completes shortly after the deadline, as a response that was already in flight
	// does) | long-after.
	Latency string `json:"latency,omitempty"`
}

const (
	justAfterDeadline = 15 * time.Millisecond
	longAfterDeadline = 120 * time.Millisecond
	barrierPatience   = 25 * time.Millisecond
)

// barrier releases all its waiters together once the expected number has arrived (or when the
// first one has waited for barrierPatience).
type barrier struct {
	mu       sync.Mutex
	expected int
	arrived  int
	release  chan struct{}
	timer    *time.Timer
	open     bool
}

func newBarrier(expected int) *barrier { return &barrier{expected: expected, release: make(chan struct{})} }

func (b *barrier) openLocked() {
	if !b.open {
		b.open = true
		close(b.release)
	}
}

func (b *barrier) wait() {
	b.mu.Lock()
	b.arrived++
	if b.arrived >= b.expected {
		b.openLocked()
	} else if b.timer == nil {
		b.timer = time.AfterFunc(barrierPatience, func() { b.mu.Lock(); b.openLocked(); b.mu.Unlock() })
	}
	b.mu.Unlock()
	<-b.release
}

// AuctionSpec scripts the block auctioneer as blockrelay/standard can behave:
// absent, failed (nil results with an error), or non-nil results whose provider
// lists may be empty.
type AuctionSpec struct {
	Mode     string        `json:"mode"` // none | error | empty | providers
	Relays   []UnblindSpec `json:"relays,omitempty"`
	NWinners int           `json:"n_winners,omitempty"`
}

// ProposeCase drives services/beaconblockproposer/standard.Propose.
type ProposeCase struct {
	Slot           uint64               `json:"slot"`
	ValidatorIndex uint64               `json:"validator_index"`
	Randao         byte                 `json:"randao"` // 0: duty without RANDAO reveal
	NoAccount      bool                 `json:"no_account,omitempty"`
	Graffiti       GraffitiProviderSpec `json:"graffiti"`
	Provider       string               `json:"provider"` // direct | best
	Nodes          []NodeSpec           `json:"nodes"`
	Auction        AuctionSpec          `json:"auction"`
	UnblindFromAll bool                 `json:"unblind_from_all,omitempty"`
	SignerErr      bool                 `json:"signer_err,omitempty"`
	SubmitErr      bool                 `json:"submit_err,omitempty"`
}

// relayDouble is a relay as the auctioneer hands it to the proposer.
type relayDouble struct {
	name     string
	spec     UnblindSpec
	calls    atomic.Int64
	inflight atomic.Int64
	late     atomic.Int64 // answers completed after the context was done
	params   BlockParams
	barrier  *barrier
}

func (r *relayDouble) Name() string              { return r.name }
func (r *relayDouble) Address() string           { return r.name }
func (r *relayDouble) Pubkey() *phase0.BLSPubKey { return nil }
func (r *relayDouble) BuilderBid(context.Context, *builderapi.BuilderBidOpts) (*builderapi.Response[*builderspec.VersionedSignedBuilderBid], error) {
	return nil, errors.New("not used")
}

// relayUnblinder additionally can unblind; its answers are restricted to what
// go-builder-client's UnblindProposal delivers: an error, or a response whose
// Data holds the unblinded block of the request's version.
type relayUnblinder struct{ relayDouble }

func (r *relayUnblinder) UnblindProposal(ctx context.Context, opts *builderapi.UnblindProposalOpts) (*builderapi.Response[*api.VersionedSignedProposal], error) {
	r.calls.Add(1)
	r.inflight.Add(1)
	defer r.inflight.Add(-1)
	if opts == nil || opts.Proposal == nil {
		return nil, errors.New("no proposal specified")
	}
	switch r.spec.Latency {
	case "barrier":
		if r.barrier != nil {
			r.barrier.wait()
		}
	case "just-after", "long-after":
		if deadline, ok := ctx.Deadline(); ok {
			d := justAfterDeadline
			if r.spec.Latency == "long-after" {
				d = longAfterDeadline
			}
			time.Sleep(time.Until(deadline.Add(d)))
		}
	}
	if ctx.Err() != nil {
		r.late.Add(1)
	}
	switch r.spec.Script {
	case "err400":
		return nil, errors.New("failed to submit unblind proposal request: POST failed with status 400: {}")
	case "err":
		return nil, errors.New("failed to submit unblind proposal request: POST failed with status 500: {}")
	}
	p := r.params
	res := &api.VersionedSignedProposal{Version: opts.Proposal.Version}
	var err error
	switch opts.Proposal.Version {
	case spec.DataVersionBellatrix:
		if opts.Proposal.Bellatrix == nil {
			return nil, errors.New("bellatrix proposal without payload")
		}
		raw, _ := json.Marshal(map[string]any{"message": blockJSON("bellatrix", false, &p), "signature": hexN(96, 0x72)})
		res.Bellatrix, err = unmarshalData("data", raw, &bellatrix.SignedBeaconBlock{})
	case spec.DataVersionCapella:
		if opts.Proposal.Capella == nil {
			return nil, errors.New("capella proposal without payload")
		}
		raw, _ := json.Marshal(map[string]any{"message": blockJSON("capella", false, &p), "signature": hexN(96, 0x72)})
		res.Capella, err = unmarshalData("data", raw, &capella.SignedBeaconBlock{})
	case spec.DataVersionDeneb:
		if opts.Proposal.Deneb == nil {
			return nil, errors.New("deneb proposal without payload")
		}
		raw, _ := json.Marshal(map[string]any{
			"signed_block": map[string]any{"message": blockJSON("deneb", false, &p), "signature": hexN(96, 0x72)},
			"kzg_proofs":   []any{}, "blobs": []any{},
		})
		res.Deneb, err = unmarshalData("data", raw, &apiv1deneb.SignedBlockContents{})
	default:
		return nil, fmt.Errorf("unhandled data version %v", opts.Proposal.Version)
	}
	if err != nil {
		return nil, err
	}
	return &builderapi.Response[*api.VersionedSignedProposal]{Data: res, Metadata: map[string]any{}}, nil
}

type auctioneerDouble struct {
	spec    *AuctionSpec
	relays  []builderclient.BuilderBidProvider
	calls   atomic.Int64
	doubles []*relayDouble
}

func (a *auctioneerDouble) AuctionBlock(context.Context, phase0.Slot, phase0.Hash32, phase0.BLSPubKey) (*blockauctioneer.Results, error) {
	a.calls.Add(1)
	switch a.spec.Mode {
	case "error":
		return nil, errors.New("failed to obtain proposer configuration")
	case "empty":
		return &blockauctioneer.Results{
			Participation: map[string]*blockauctioneer.Participation{},
			AllProviders:  []builderclient.BuilderBidProvider{},
			Providers:     []builderclient.BuilderBidProvider{},
		}, nil
	}
	res := &blockauctioneer.Results{
		Participation: map[string]*blockauctioneer.Participation{},
		AllProviders:  append([]builderclient.BuilderBidProvider{}, a.relays...),
		Providers:     []builderclient.BuilderBidProvider{},
	}
	n := a.spec.NWinners
	if n > len(a.relays) {
		n = len(a.relays)
	}
	if n > 0 {
		res.Providers = append(res.Providers, a.relays[:n]...)
		res.WinningParticipation = &blockauctioneer.Participation{Category: "standard"}
	}
	return res, nil
}

type headDouble struct{}

func (headDouble) ExecutionChainHead(context.Context) (phase0.Hash32, uint64) {
	return phase0.Hash32{0x51}, 100
}

type signerDouble struct{ fail bool }

func (s signerDouble) SignBeaconBlockProposal(context.Context, e2wtypes.Account, phase0.Slot, phase0.ValidatorIndex, phase0.Root, phase0.Root, phase0.Root) (phase0.BLSSignature, error) {
	if s.fail {
		return phase0.BLSSignature{}, errors.New("scripted signing failure")
	}
	return randaoOf(0x99), nil
}
func (s signerDouble) SignRANDAOReveal(context.Context, e2wtypes.Account, phase0.Slot) (phase0.BLSSignature, error) {
	return randaoOf(0x98), nil
}
func (s signerDouble) SignBlobSidecar(context.Context, e2wtypes.Account, phase0.Slot, phase0.Root) (phase0.BLSSignature, error) {
	return randaoOf(0x97), nil
}

type submitDouble struct {
	fail      bool
	mu        sync.Mutex
	submitted []*api.VersionedSignedProposal
}

func (s *submitDouble) SubmitProposal(_ context.Context, p *api.VersionedSignedProposal) error {
	s.mu.Lock()
	s.submitted = append(s.submitted, p)
	s.mu.Unlock()
	// What every real submitter does first with a proposal: serialise it.
	if p != nil {
		_ = guard(func() { _, _ = json.Marshal(p) })
	}
	if s.fail {
		return errors.New("scripted submit failure")
	}
	return nil
}

type accountsDouble struct {
	accounts map[phase0.ValidatorIndex]e2wtypes.Account
}

func (a accountsDouble) ValidatingAccountsForEpoch(context.Context, phase0.Epoch) (map[phase0.ValidatorIndex]e2wtypes.Account, error) {
	return a.accounts, nil
}
func (a accountsDouble) ValidatingAccountsForEpochByIndex(_ context.Context, _ phase0.Epoch, indices []phase0.ValidatorIndex) (map[phase0.ValidatorIndex]e2wtypes.Account, error) {
	res := map[phase0.ValidatorIndex]e2wtypes.Account{}
	for _, i := range indices {
		if acc, ok := a.accounts[i]; ok {
			res[i] = acc
		}
	}
	return res, nil
}
func (a accountsDouble) SyncCommitteeAccountsForEpoch(context.Context, phase0.Epoch) (map[phase0.ValidatorIndex]e2wtypes.Account, error) {
	return a.accounts, nil
}
func (a accountsDouble) SyncCommitteeAccountsForEpochByIndex(ctx context.Context, e phase0.Epoch, indices []phase0.ValidatorIndex) (map[phase0.ValidatorIndex]e2wtypes.Account, error) {
	return a.ValidatingAccountsForEpochByIndex(ctx, e, indices)
}
func (a accountsDouble) AccountByPublicKey(_ context.Context, pubkey phase0.BLSPubKey) (e2wtypes.Account, error) {
	for _, acc := range a.accounts {
		var k phase0.BLSPubKey
		copy(k[:], acc.PublicKey().Marshal())
		if k == pubkey {
			return acc, nil
		}
	}
	return nil, errors.New("not found")
}

const proposeCtxTimeout = 150 * time.Millisecond

func runPropose(c *ProposeCase, out *outcome) {
	libBefore := libraryPanics.Load()
	defer func() {
		if libraryPanics.Load() > libBefore {
			out.label("propose:response-the-client-library-itself-panics-on")
		}
	}()
	initKeys()
	ctx, cancel := context.WithCancel(context.Background())
	defer cancel()
	if len(c.Nodes) == 0 {
		out.harness = "propose case without nodes"
		return
	}
	providers, doubles := buildNodes(c.Nodes)
	var provider eth2client.ProposalProvider
	if c.Provider == "best" {
		best, err := newBestStrategy(ctx, c.Slot, providers)
		if err != nil {
			out.harness = "cannot construct best proposal strategy: " + err.Error()
			return
		}
		provider = best
	} else {
		provider = providers["node0"]
		doubles = doubles[:1]
	}
	graffiti, _, err := c.Graffiti.build(ctx)
	if err != nil {
		// e.g. a dynamic provider without location: rejected at start-up, nothing to run
		out.label("propose:graffiti-provider-rejected")
		return
	}
	account := &plainAccount{idx: 0, name: "Account 1"}
	params := []proposer.Parameter{
		proposer.WithLogLevel(zerolog.Disabled),
		proposer.WithMonitor(nullMonitor),
		proposer.WithChainTime(newClock(c.Slot)),
		proposer.WithProposalDataProvider(provider),
		proposer.WithValidatingAccountsProvider(accountsDouble{accounts: map[phase0.ValidatorIndex]e2wtypes.Account{phase0.ValidatorIndex(c.ValidatorIndex): account}}),
		proposer.WithExecutionChainHeadProvider(headDouble{}),
		proposer.WithProposalSubmitter(&submitDouble{fail: c.SubmitErr}),
		proposer.WithRANDAORevealSigner(signerDouble{}),
		proposer.WithBeaconBlockSigner(signerDouble{fail: c.SignerErr}),
		proposer.WithBlobSidecarSigner(signerDouble{}),
		proposer.WithUnblindFromAllRelays(c.UnblindFromAll),
		proposer.WithBuilderBoostFactor(100),
	}
	if graffiti != nil {
		params = append(params, proposer.WithGraffitiProvider(graffiti))
	}
	var auctioneer *auctioneerDouble
	if c.Auction.Mode != "none" {
		auctioneer = &auctioneerDouble{spec: &c.Auction}
		nBarrier := 0
		for _, r := range c.Auction.Relays {
			if r.CanUnblind && r.Latency == "barrier" {
				nBarrier++
			}
		}
		relayBarrier := newBarrier(nBarrier)
		for i, r := range c.Auction.Relays {
			rd := relayDouble{name: fmt.Sprintf("http://relay%d.invalid", i), spec: r, barrier: relayBarrier,
				params: BlockParams{Slot: c.Slot, ProposerIndex: c.ValidatorIndex, Randao: c.Randao, FeeRecipient: 0x11, PayloadState: 0x52}}
			if r.CanUnblind {
				u := &relayUnblinder{rd}
				auctioneer.relays = append(auctioneer.relays, u)
				auctioneer.doubles = append(auctioneer.doubles, &u.relayDouble)
			} else {
				d := &rd
				auctioneer.relays = append(auctioneer.relays, d)
				auctioneer.doubles = append(auctioneer.doubles, d)
			}
		}
		params = append(params, proposer.WithBlockAuctioneer(auctioneer))
	}
	svc, err := proposer.New(ctx, params...)
	if err != nil {
		out.harness = "cannot construct proposer: " + err.Error()
		return
	}
	duty := beaconblockproposer.NewDuty(phase0.Slot(c.Slot), phase0.ValidatorIndex(c.ValidatorIndex))
	if c.Randao != 0 {
		duty.SetRandaoReveal(randaoOf(c.Randao))
	}
	if !c.NoAccount {
		duty.SetAccount(account)
	}
	pctx, pcancel := context.WithTimeout(ctx, proposeCtxTimeout)
	defer pcancel()
	out.addPanic(guard(func() { svc.Propose(pctx, duty) }))

	// Unblinding runs on goroutines the proposer starts itself and that outlive Propose: a relay
	// may answer after Propose has given up or has taken another relay's block, and a relay that
	// keeps failing is retried three times, 250 ms apart, before the goroutine looks at the
	// (missing) response.  Wait for all of that, so that whatever happens on those goroutines
	// happens within this case (and the supervisor attributes a crash to it).
	if auctioneer != nil {
		retries, requested, late := false, false, false
		for _, d := range auctioneer.doubles {
			if d.calls.Load() == 0 {
				continue
			}
			requested = true
			if d.spec.Script == "err" {
				for end := time.Now().Add(3 * time.Second); d.calls.Load() < 3 && time.Now().Before(end); {
					time.Sleep(5 * time.Millisecond)
				}
				retries = true
			}
		}
		for _, d := range auctioneer.doubles {
			for end := time.Now().Add(3 * time.Second); d.inflight.Load() > 0 && time.Now().Before(end); {
				time.Sleep(2 * time.Millisecond)
			}
			if d.late.Load() > 0 {
				late = true
			}
		}
		if retries {
			time.Sleep(270 * time.Millisecond)
			out.label("propose:unblind-retries-exhausted")
		}
		if requested {
			// let the goroutines hand over (or drop) the answers they have just received
			time.Sleep(8 * time.Millisecond)
		}
		if late {
			out.label("propose:relay-answered-after-context-deadline")
		}
		together := 0
		for _, d := range auctioneer.doubles {
			if d.spec.Latency == "barrier" && d.spec.Script == "ok" && d.calls.Load() > 0 {
				together++
			}
		}
		if together >= 2 {
			out.label("propose:relays-answered-together")
		}
	}

	delivered := int64(0)
	var deliveredBlinded bool
	for i, d := range doubles {
		delivered += d.delivered.Load()
		if d.delivered.Load() > 0 && c.Nodes[i].Proposal.Blinded {
			deliveredBlinded = true
		}
	}
	// first validation layer: the duty is valid and a decoded proposal reached the proposer
	out.nontrivial = c.Randao != 0 && !c.NoAccount && delivered > 0
	if out.nontrivial {
		out.label("propose:provider-" + c.Provider)
		out.label("propose:auction-" + c.Auction.Mode)
		if deliveredBlinded {
			out.label("propose:blinded-proposal-delivered/auction-" + c.Auction.Mode)
		}
		out.label("propose:graffiti-" + c.Graffiti.Kind)
	}
	if auctioneer != nil {
		for _, d := range auctioneer.doubles {
			if d.calls.Load() > 0 {
				out.label("propose:unblind-requested")
				break
			}
		}
	}
}

// ---- generators -----------------------------------------------------------------

func genFetchScript(t *rapid.T, label string, data func() []byte) FetchScript {
	k := rapid.SampledFrom([]string{"data", "data", "data", "notfound", "error"}).Draw(t, label)
	s := FetchScript{Kind: k}
	if k == "data" {
		s.Data = blobOf(data())
	}
	return s
}

func genGraffitiFile(t *rapid.T) []byte {
	switch rapid.IntRange(0, 5).Draw(t, "fileKind") {
	case 0:
		return rapid.SliceOfN(rapid.Byte(), 0, 80).Draw(t, "fileBytes")
	case 1:
		return []byte(rapid.SampledFrom([]string{"", "\n", "\r\n", "\n\n\n", " ", "\r\n\r\n", "\x00"}).Draw(t, "fileBlank"))
	default:
		n := rapid.IntRange(1, 4).Draw(t, "fileLines")
		var b []byte
		for i := 0; i < n; i++ {
			b = append(b, genGraffiti(t)...)
			b = append(b, []byte(rapid.SampledFrom([]string{"\n", "\r\n", "\n\n", ""}).Draw(t, "fileEol"))...)
		}
		return b
	}
}

func genGraffitiProvider(t *rapid.T) GraffitiProviderSpec {
	g := GraffitiProviderSpec{Kind: rapid.SampledFrom([]string{"none", "static", "static", "dynamic", "dynamic", "error"}).Draw(t, "graffitiProvider")}
	switch g.Kind {
	case "static":
		g.Static = blobOf(genGraffiti(t))
		if len(g.Static.Bytes()) == 0 {
			g.Static = blobOf([]byte("vouch"))
		}
	case "dynamic":
		g.Location = rapid.SampledFrom([]string{"file:///graffiti/{{SLOT}}.txt", "file:///g/{{VALIDATORINDEX}}", "x", "{{SLOT}}{{SLOT}}", "file:///graffiti.txt"}).Draw(t, "location")
		g.Fallback = rapid.SampledFrom([]string{"", "", "file:///fallback.txt"}).Draw(t, "fallback")
		g.Primary = genFetchScript(t, "primaryFetch", func() []byte { return genGraffitiFile(t) })
		if g.Fallback != "" {
			g.Second = genFetchScript(t, "secondFetch", func() []byte { return genGraffitiFile(t) })
		}
	}
	return g
}

func genProposeCase(t *rapid.T) Case {
	c := &ProposeCase{
		Slot:           genSlot(t),
		ValidatorIndex: genU64(t, "validatorIndex"),
		Randao:         rapid.SampledFrom([]byte{0x01, 0xc0, 0xff, 0xff, 0xff, 0xff, 0xff, 0xff, 0xff, 0xff, 0xff, 0xff, 0xff, 0xff, 0xff, 0x00}).Draw(t, "randao"),
		NoAccount:      rapid.IntRange(0, 29).Draw(t, "noAccount") == 0,
		Provider:       rapid.SampledFrom([]string{"direct", "best"}).Draw(t, "provider"),
		UnblindFromAll: rapid.Bool().Draw(t, "unblindFromAll"),
		SignerErr:      rapid.IntRange(0, 11).Draw(t, "signerErr") == 0,
		SubmitErr:      rapid.IntRange(0, 7).Draw(t, "submitErr") == 0,
	}
	c.Graffiti = genGraffitiProvider(t)
	n := 1
	if c.Provider == "best" {
		n = rapid.IntRange(1, 3).Draw(t, "nNodes")
	}
	for i := 0; i < n; i++ {
		c.Nodes = append(c.Nodes, genNodeSpec(t, c.Slot, c.Randao))
	}
	c.Auction.Mode = rapid.SampledFrom([]string{"none", "none", "error", "empty", "providers", "providers", "providers"}).Draw(t, "auctionMode")
	if c.Auction.Mode == "providers" {
		nr := rapid.SampledFrom([]int{0, 1, 2, 2, 3, 3}).Draw(t, "nRelays")
		for i := 0; i < nr; i++ {
			c.Auction.Relays = append(c.Auction.Relays, UnblindSpec{
				CanUnblind: rapid.IntRange(0, 5).Draw(t, "canUnblind") > 0,
				Script:     rapid.SampledFrom([]string{"ok", "ok", "ok", "ok", "ok", "ok", "err400", "err400", "err"}).Draw(t, "unblindScript"),
				Latency:    rapid.SampledFrom([]string{"now", "now", "now", "barrier", "barrier", "barrier", "barrier", "just-after", "just-after", "long-after"}).Draw(t, "unblindLatency"),
			})
		}
		c.Auction.NWinners = rapid.IntRange(0, nr).Draw(t, "nWinners")
		if nr > 1 && rapid.Bool().Draw(t, "allWin") {
			c.Auction.NWinners = nr // several relays offering the winning bid is the normal case
		}
	}
	if c.Auction.Mode == "providers" && len(c.Auction.Relays) > 0 && rapid.Bool().Draw(t, "cleanBlinded") {
		// Make the unblinding stage (relay timing, retries, several relays) reachable often: every
		// node offers a well-formed blinded proposal of a version that has blinded blocks.
		v := rapid.SampledFrom([]string{"bellatrix", "capella", "deneb"}).Draw(t, "cleanBlindedVersion")
		for i := range c.Nodes {
			p := &c.Nodes[i].Proposal
			p.Outcome, p.Version, p.Blinded, p.Envelope, p.Muts, p.SlotDelta, p.WrongRandao = "ok", v, true, "data", nil, 0, false
			p.ConsensusValue, p.ExecutionValue = "1", "2"
			if p.Params.FeeRecipient == 0 {
				p.Params.FeeRecipient = 0x11
			}
		}
	}
	return Case{Target: "propose", Propose: c}
}

func TestPropose(t *testing.T) { prop(t, genProposeCase) }
