package c16

import (
	"context"
	"testing"

	"github.com/attestantio/go-eth2-client/api"
	"github.com/attestantio/go-eth2-client/spec/phase0"
	"pgregory.net/rapid"
)

// GraffitiCase drives the dynamic graffiti provider with arbitrary file contents
// and location templates, and hands every graffiti it returns to the "best"
// proposal strategy of a node with the given client name (the path on which the
// {{CLIENT}} template is expanded).
type GraffitiCase struct {
	Provider       GraffitiProviderSpec `json:"provider"`
	Slot           uint64               `json:"slot"`
	ValidatorIndex uint64               `json:"validator_index"`
	ClientName     string               `json:"client_name"`
	Repeat         int                  `json:"repeat"` // the provider picks a line at random: ask several times
}

func runGraffiti(c *GraffitiCase, out *outcome) {
	ctx, cancel := context.WithCancel(context.Background())
	defer cancel()
	c.Provider.Kind = "dynamic"
	provider, md, err := c.Provider.build(ctx)
	if err != nil || provider == nil {
		out.label("graffiti:provider-rejected")
		return
	}
	node := NodeSpec{HasNodeClient: true, ClientName: c.ClientName, Proposal: ProposalSpec{
		Outcome: "ok", Version: "capella", ConsensusValue: "1", ExecutionValue: "1", Envelope: "data",
		Params: BlockParams{Slot: c.Slot, Randao: 0xc0, FeeRecipient: 0x11, PayloadState: 0x52},
	}}
	providers, _ := buildNodes([]NodeSpec{node})
	best, err := newBestStrategy(ctx, c.Slot, providers)
	if err != nil {
		out.harness = "cannot construct best proposal strategy: " + err.Error()
		return
	}
	repeat := c.Repeat
	if repeat < 1 {
		repeat = 1
	}
	if repeat > 8 {
		repeat = 8
	}
	for i := 0; i < repeat; i++ {
		var g []byte
		var gerr error
		out.addPanic(guard(func() { g, gerr = provider.Graffiti(ctx, phase0.Slot(c.Slot), phase0.ValidatorIndex(c.ValidatorIndex)) }))
		if gerr != nil {
			out.label("graffiti:provider-error")
			continue
		}
		if len(g) > 0 {
			// first validation layer: the file was fetched and yielded a non-empty graffiti
			out.nontrivial = true
		}
		if len(g) > 32 {
			out.label("graffiti:longer-than-32")
		}
		classifyGraffiti(g, []NodeSpec{node}, out, "graffiti")
		opts := &api.ProposalOpts{Slot: phase0.Slot(c.Slot), RandaoReveal: randaoOf(0xc0), Graffiti: graffitiArray(g)}
		out.addPanic(guard(func() { _, _ = best.Proposal(ctx, opts) }))
	}
	if md != nil && len(md.fetched) > 0 {
		out.label("graffiti:fetched")
	}
}

func genGraffitiCase(t *rapid.T) Case {
	c := &GraffitiCase{
		Slot:           genSlot(t),
		ValidatorIndex: genU64(t, "validatorIndex"),
		ClientName:     rapid.SampledFrom(clientNames).Draw(t, "clientName"),
		Repeat:         rapid.IntRange(1, 4).Draw(t, "repeat"),
	}
	c.Provider = genGraffitiProvider(t)
	c.Provider.Kind = "dynamic"
	if c.Provider.Location == "" {
		c.Provider.Location = rapid.SampledFrom([]string{"file:///graffiti/{{SLOT}}.txt", "x", ""}).Draw(t, "location2")
		c.Provider.Primary = genFetchScript(t, "primaryFetch2", func() []byte { return genGraffitiFile(t) })
	}
	return Case{Target: "graffiti", Graffiti: c}
}

func TestGraffiti(t *testing.T) { prop(t, genGraffitiCase) }

// FuzzGraffitiFile is the byte-level campaign over the graffiti file contents.
func FuzzGraffitiFile(f *testing.F) {
	f.Add([]byte("hello\nworld\r\n\r\n{{CLIENT}} {{SLOT}} {{VALIDATORINDEX}}\n"), byte(0))
	f.Add([]byte("{{CLIENT}}"), byte(1))
	f.Add([]byte("\n\n\n"), byte(2))
	f.Fuzz(func(t *testing.T, data []byte, sel byte) {
		if len(data) > 1<<12 {
			t.Skip()
		}
		c := Case{Target: "graffiti", Graffiti: &GraffitiCase{
			Provider:   GraffitiProviderSpec{Kind: "dynamic", Location: "file:///g/{{SLOT}}", Primary: FetchScript{Kind: "data", Data: blobOf(data)}},
			Slot:       100,
			ClientName: clientNames[int(sel)%len(clientNames)],
			Repeat:     3,
		}}
		check(t, &c)
	})
}
