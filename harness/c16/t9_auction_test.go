package c16

import (
	"context"
	"errors"
	"strings"
	"testing"
	"time"

	builderapi "github.com/attestantio/go-builder-client/api"
	"github.com/attestantio/go-eth2-client/api"
	apiv1 "github.com/attestantio/go-eth2-client/api/v1"
	"github.com/attestantio/go-eth2-client/spec/bellatrix"
	"github.com/attestantio/go-eth2-client/spec/phase0"
	"github.com/attestantio/vouch/services/blockrelay"
	relaysvc "github.com/attestantio/vouch/services/blockrelay/standard"
	bestbid "github.com/attestantio/vouch/strategies/builderbid/best"
	"github.com/rs/zerolog"
	e2wtypes "github.com/wealdtech/go-eth2-wallet-types/v2"
	"pgregory.net/rapid"

	"verifharness/internal/fakes"
)

// AuctionOp is one call into services/blockrelay/standard: "auction" is the proposer's
// AuctionBlock (the slot is vouch's own duty slot), "bid" is BuilderBid, the entry point of the
// builder REST API that beacon nodes call (GET /eth/v1/builder/header/{slot}/{parent}/{pubkey}:
// go-block-relay parses any uint64 slot, any 32-byte hash, any 48-byte key).
type AuctionOp struct {
	Kind       string `json:"kind"` // auction | bid
	Slot       uint64 `json:"slot"` // 0: the case's slot
	ParentHash byte   `json:"parent_hash"`
	Pubkey     int    `json:"pubkey"`
}

// AuctionCase drives the block relay service over the real "best" bid strategy and relay
// doubles: auction without winner followed by a bid request for the same triple, bid requests
// for unknown validators, boundary slots.
type AuctionCase struct {
	Slot   uint64      `json:"slot"`
	Relays []RelaySpec `json:"relays"`
	Ops    []AuctionOp `json:"ops"`
}

type validatorsDouble struct{}

func (validatorsDouble) Validators(context.Context, *api.ValidatorsOpts) (*api.Response[map[phase0.ValidatorIndex]*apiv1.Validator], error) {
	return &api.Response[map[phase0.ValidatorIndex]*apiv1.Validator]{Data: map[phase0.ValidatorIndex]*apiv1.Validator{}, Metadata: map[string]any{}}, nil
}

type regSignerDouble struct{}

func (regSignerDouble) SignValidatorRegistration(context.Context, e2wtypes.Account, *builderapi.VersionedValidatorRegistration) (phase0.BLSSignature, error) {
	return phase0.BLSSignature{}, errors.New("not under test")
}

func runAuction(c *AuctionCase, out *outcome) {
	initKeys()
	ctx, cancel := context.WithCancel(context.Background())
	defer cancel()
	slotDuration := 12 * time.Second
	genesis := time.Now().Add(-time.Duration(c.Slot) * slotDuration).Truncate(time.Second)
	clock := fakes.NewVClock(genesis, slotDuration, 32)
	clock.Set(time.Now())
	slotTimestamp := uint64(clock.StartOfSlot(phase0.Slot(c.Slot)).Unix())

	strategy, err := bestbid.New(ctx,
		bestbid.WithLogLevel(zerolog.Disabled), bestbid.WithMonitor(nullMonitor),
		bestbid.WithSpecProvider(specProvider{slotsPerEpoch: 32}), bestbid.WithDomainProvider(domainProvider{}),
		bestbid.WithChainTime(clock), bestbid.WithTimeout(bidTimeout), bestbid.WithReleaseVersion("test"))
	if err != nil {
		out.harness = "cannot construct builder bid strategy: " + err.Error()
		return
	}
	relays := map[string]any{}
	var servers []*relayServer
	defer func() {
		for _, s := range servers {
			s.srv.Close()
		}
	}()
	for i := range c.Relays {
		r := &c.Relays[i]
		address := r.Address
		if address == "" {
			rs := startRelay(r, slotTimestamp)
			servers = append(servers, rs)
			address = strings.Replace(rs.srv.URL, "http://", "http://"+userPart(r.UserPubkey), 1)
		} else if address == "<empty>" {
			address = ""
		}
		entry := map[string]any{}
		if k := configPubkey(r.ConfigPubkey); k != nil {
			entry["public_key"] = k.String()
		}
		relays[address] = entry
	}
	doc := mustJSON(map[string]any{"version": 2, "relays": relays})
	accounts := accountsDouble{accounts: map[phase0.ValidatorIndex]e2wtypes.Account{
		1: &plainAccount{idx: 0, name: "Account 0"}, 2: &plainAccount{idx: 1, name: "Account 1"}}}
	md := &fakeMajordomo{def: FetchScript{Kind: "data", Data: blobOf([]byte(doc))}, scripts: map[string]FetchScript{}}
	var svc *relaysvc.Service
	out.addPanic(guard(func() {
		svc, err = relaysvc.New(ctx,
			relaysvc.WithLogLevel(zerolog.Disabled), relaysvc.WithMonitor(nullMonitor), relaysvc.WithMajordomo(md),
			relaysvc.WithScheduler(fakes.NewSched()),
			// an address that cannot be bound: the REST daemon itself is not under test (a failed bind is only logged)
			relaysvc.WithListenAddress("192.0.2.1:1"), relaysvc.WithChainTime(clock),
			relaysvc.WithConfigURL("file:///c16/execution-config.json"),
			relaysvc.WithFallbackFeeRecipient(bellatrix.ExecutionAddress{0x11}), relaysvc.WithFallbackGasLimit(30000000),
			relaysvc.WithAccountsProvider(accounts), relaysvc.WithValidatorsProvider(validatorsDouble{}),
			relaysvc.WithValidatingAccountsProvider(accounts), relaysvc.WithValidatorRegistrationSigner(regSignerDouble{}),
			relaysvc.WithReleaseVersion("c16"), relaysvc.WithBuilderBidProvider(strategy),
			relaysvc.WithBuilderConfigs(map[phase0.BLSPubKey]*blockrelay.BuilderConfig{}))
	}))
	if len(out.panics) > 0 {
		return
	}
	if err != nil || svc == nil {
		out.harness = "cannot construct block relay service: " + errString(err)
		return
	}
	type triple struct {
		slot   uint64
		parent byte
		pubkey int
	}
	auctioned := map[triple]bool{}
	for _, op := range c.Ops {
		slot := op.Slot
		if slot == 0 {
			slot = c.Slot
		}
		var parent phase0.Hash32
		for i := range parent {
			parent[i] = op.ParentHash
		}
		if op.ParentHash == 0x51 {
			parent = bidParentHash
		}
		pubkey := pubkeyByIdx(op.Pubkey)
		tr := triple{slot, op.ParentHash, op.Pubkey}
		switch op.Kind {
		case "auction":
			out.addPanic(guard(func() {
				res, err := svc.AuctionBlock(ctx, phase0.Slot(slot), parent, pubkey)
				switch {
				case err != nil:
					out.label("auction:auction-error")
				case res != nil && res.WinningParticipation != nil:
					out.label("auction:auction-winner")
					out.nontrivial = true
				default:
					out.label("auction:auction-no-winner")
					out.nontrivial = true
				}
			}))
			auctioned[tr] = true
		default:
			if auctioned[tr] {
				out.label("auction:bid-after-auction-for-same-triple")
			}
			out.addPanic(guard(func() {
				bid, err := svc.BuilderBid(ctx, phase0.Slot(slot), parent, pubkey)
				switch {
				case err != nil:
					out.label("auction:bid-error")
				case bid == nil:
					out.label("auction:bid-none")
				default:
					out.label("auction:bid-returned")
					out.nontrivial = true
				}
			}))
		}
	}
	time.Sleep(3 * time.Millisecond)
}

func errString(err error) string {
	if err == nil {
		return "<nil>"
	}
	return err.Error()
}

func genAuctionCase(t *rapid.T) Case {
	c := &AuctionCase{Slot: rapid.SampledFrom([]uint64{1, 2, 100, 1000000}).Draw(t, "slot")}
	n := rapid.IntRange(0, 2).Draw(t, "nRelays")
	for i := 0; i < n; i++ {
		r := genRelaySpec(t)
		r.GraceMs = 0
		c.Relays = append(c.Relays, r)
	}
	nOps := rapid.IntRange(1, 4).Draw(t, "nOps")
	for i := 0; i < nOps; i++ {
		op := AuctionOp{
			Kind:       rapid.SampledFrom([]string{"auction", "bid", "bid"}).Draw(t, "opKind"),
			ParentHash: rapid.SampledFrom([]byte{0x51, 0x51, 0x51, 0x00, 0x07}).Draw(t, "opParent"),
			Pubkey:     rapid.SampledFrom([]int{0, 0, 0, 1, 2, nKeys, nKeys + 1}).Draw(t, "opPubkey"),
		}
		if i > 0 && rapid.Bool().Draw(t, "sameTriple") {
			prev := c.Ops[i-1]
			op.ParentHash, op.Pubkey, op.Slot = prev.ParentHash, prev.Pubkey, prev.Slot
		} else if op.Kind == "bid" && rapid.IntRange(0, 2).Draw(t, "boundarySlot") == 0 {
			// the slot of a REST request is the beacon node's
			op.Slot = genU64(t, "opSlot")
		}
		c.Ops = append(c.Ops, op)
	}
	return Case{Target: "auction", Auction: c}
}

func TestAuction(t *testing.T) { prop(t, genAuctionCase) }
