package c13

import (
	"context"
	"crypto/sha256"
	"fmt"
	"path/filepath"
	"sync"
	"testing"

	"github.com/attestantio/go-eth2-client/spec/phase0"
	e2types "github.com/wealdtech/go-eth2-types/v2"
	e2wallet "github.com/wealdtech/go-eth2-wallet"
	keystorev4 "github.com/wealdtech/go-eth2-wallet-encryptor-keystorev4"
	filesystem "github.com/wealdtech/go-eth2-wallet-store-filesystem"
	e2wtypes "github.com/wealdtech/go-eth2-wallet-types/v2"
)

// The universe is fixed: every wallet holds every account name.  Wallet names
// and account names are chosen to be mutually confusable: prefixes ("w1"/"w10",
// "a"/"aa"/"ab", "Val 1"/"Val 10"), suffixes ("b"/"ab"/"cb"), and regular
// expression metacharacters that are legal in names ("w.1" vs "wx1", "a.c" vs
// "axc").
var (
	walletNames  = []string{"w1", "w10", "w.1", "wx1"}
	accountNames = []string{"a", "aa", "ab", "b", "cb", "a.c", "axc", "Val 1", "Val 10"}
	// walletLocation: index of the store directory that holds the wallet.
	walletLocation = []int{0, 1, 0, 1}
)

const nLocations = 2

// Acct is one account of the universe.
type Acct struct {
	ID         int
	Wallet     string
	Name       string
	Passphrase string
	PubKey     phase0.BLSPubKey
	// Distributed: the remote signer offers the account as a distributed
	// (threshold) account: PubKey is then the key of the signer's share and
	// Composite the key of the validator.  The wallet manager's wallets hold
	// plain accounts only.
	Distributed bool
	Composite   phase0.BLSPubKey
	priv        []byte
}

func (a *Acct) Path() string { return a.Wallet + "/" + a.Name }

// ValidatorKey is the public key under which the beacon chain knows the
// validator of this account, as seen through the given manager.
func (a *Acct) ValidatorKey(mgr string) phase0.BLSPubKey {
	if mgr == "dirk" && a.Distributed {
		return a.Composite
	}
	return a.PubKey
}

// validatorKeyOf: the validator's key of an account handed out by a manager
// (the composite key of a distributed account, else its own key).
func validatorKeyOf(acc e2wtypes.Account) phase0.BLSPubKey {
	var k phase0.BLSPubKey
	if p, ok := acc.(e2wtypes.AccountCompositePublicKeyProvider); ok {
		copy(k[:], p.CompositePublicKey().Marshal())
	} else {
		copy(k[:], acc.PublicKey().Marshal())
	}
	return k
}

var (
	universeOnce sync.Once
	universe     []*Acct
	byPubKey     map[phase0.BLSPubKey]*Acct
)

// passphraseOf: accounts of wallet w10 and every account named "cb" are
// encrypted with "p2", everything else with "p1".
func passphraseOf(wallet, name string) string {
	if wallet == "w10" || name == "cb" {
		return "p2"
	}
	return "p1"
}

func accounts() []*Acct {
	universeOnce.Do(func() {
		if err := e2types.InitBLS(); err != nil {
			panic(err)
		}
		byPubKey = map[phase0.BLSPubKey]*Acct{}
		for _, w := range walletNames {
			for _, n := range accountNames {
				h := sha256.Sum256([]byte("verif-c13-key|" + w + "|" + n))
				h[0] = 0 // below the group order
				if h[31] == 0 {
					h[31] = 1
				}
				sk, err := e2types.BLSPrivateKeyFromBytes(h[:])
				if err != nil {
					panic(err)
				}
				a := &Acct{ID: len(universe), Wallet: w, Name: n, Passphrase: passphraseOf(w, n), priv: h[:]}
				copy(a.PubKey[:], sk.PublicKey().Marshal())
				if n == "ab" || n == "Val 10" || (w == "wx1" && n == "a") {
					hc := sha256.Sum256([]byte("verif-c13-composite|" + w + "|" + n))
					hc[0] = 0
					if hc[31] == 0 {
						hc[31] = 1
					}
					csk, err := e2types.BLSPrivateKeyFromBytes(hc[:])
					if err != nil {
						panic(err)
					}
					a.Distributed = true
					copy(a.Composite[:], csk.PublicKey().Marshal())
				}
				universe = append(universe, a)
				byPubKey[a.PubKey] = a
			}
		}
	})
	return universe
}

func acctID(wallet, name string) int {
	for _, a := range accounts() {
		if a.Wallet == wallet && a.Name == name {
			return a.ID
		}
	}
	return -1
}

// buildWalletStores writes the universe as non-deterministic filesystem
// wallets below dir and returns the store locations.  The keystore is written
// with the cheapest key-derivation cost the encryptor allows (the cost is read
// back from the keystore on decryption, so unlocking is cheap too).
func buildWalletStores(t *testing.T, dir string) []string {
	t.Helper()
	ctx := context.Background()
	encryptor := keystorev4.New(keystorev4.WithCost(t, 1))
	locations := make([]string, nLocations)
	stores := make([]e2wtypes.Store, nLocations)
	for i := range locations {
		locations[i] = filepath.Join(dir, fmt.Sprintf("store%d", i))
		stores[i] = filesystem.New(filesystem.WithLocation(locations[i]))
	}
	for wi, w := range walletNames {
		wallet, err := e2wallet.CreateWallet(w, e2wallet.WithType("nd"), e2wallet.WithStore(stores[walletLocation[wi]]), e2wallet.WithEncryptor(encryptor))
		if err != nil {
			t.Fatalf("harness: cannot create wallet %q: %v", w, err)
		}
		if err := wallet.(e2wtypes.WalletLocker).Unlock(ctx, nil); err != nil {
			t.Fatalf("harness: cannot unlock wallet %q: %v", w, err)
		}
		for _, a := range accounts() {
			if a.Wallet != w {
				continue
			}
			if _, err := wallet.(e2wtypes.WalletAccountImporter).ImportAccount(ctx, a.Name, a.priv, []byte(a.Passphrase)); err != nil {
				t.Fatalf("harness: cannot import account %q: %v", a.Path(), err)
			}
		}
	}
	return locations
}
