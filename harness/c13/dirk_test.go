package c13

import (
	"context"
	"crypto/ecdsa"
	"crypto/elliptic"
	"crypto/rand"
	"crypto/tls"
	"crypto/x509"
	"crypto/x509/pkix"
	"encoding/pem"
	"errors"
	"fmt"
	"math/big"
	"net"
	"strings"
	"sync"
	"testing"
	"time"

	dirkam "github.com/attestantio/vouch/services/accountmanager/dirk"
	"github.com/attestantio/vouch/services/chaintime"
	nullmetrics "github.com/attestantio/vouch/services/metrics/null"
	"github.com/attestantio/vouch/services/validatorsmanager"
	"github.com/rs/zerolog"
	pb "github.com/wealdtech/eth2-signer-api/pb/v1"
	"google.golang.org/grpc"
	"google.golang.org/grpc/credentials"
	"pgregory.net/rapid"
)

// signerDouble is an in-process remote signer: a gRPC server with the Lister
// service of the signer API behind mutual TLS, with a certificate authority and
// certificates generated at run time.  Like the real signer it lists the whole
// wallet for a wallet path (the account manager always asks for the wallet);
// what it lists is scripted by the current refresh.
type signerDouble struct {
	pb.UnimplementedListerServer
	mu       sync.Mutex
	script   *Refresh
	requests []string

	endpoint   string
	caPEM      []byte
	clientCert []byte
	clientKey  []byte
}

func (s *signerDouble) setScript(r *Refresh) {
	s.mu.Lock()
	s.script = r
	s.mu.Unlock()
}

// signerKind is how the signer answers a listing of the wallet in refresh r.
func signerKind(r *Refresh, wallet string) string {
	if k, ok := r.Signer[wallet]; ok {
		return k
	}
	return "full"
}

// signerOffers: does the listing of a's wallet in refresh r contain a?
func signerOffers(r *Refresh, a *Acct) bool {
	switch signerKind(r, a.Wallet) {
	case "empty", "error":
		return false
	case "subset":
		for _, id := range r.SignerOmit {
			if id == a.ID {
				return false
			}
		}
	}
	return true
}

func (s *signerDouble) ListAccounts(_ context.Context, in *pb.ListAccountsRequest) (*pb.ListAccountsResponse, error) {
	s.mu.Lock()
	defer s.mu.Unlock()
	resp := &pb.ListAccountsResponse{State: pb.ResponseState_SUCCEEDED}
	for _, path := range in.GetPaths() {
		s.requests = append(s.requests, path)
		wallet := path
		if i := strings.Index(path, "/"); i >= 0 {
			wallet = path[:i]
		}
		if signerKind(s.script, wallet) == "error" {
			return nil, errors.New("scripted signer failure")
		}
		for _, a := range accounts() {
			if a.Wallet != wallet || !signerOffers(s.script, a) {
				continue
			}
			id := make([]byte, 16)
			id[0], id[15] = 0xc1, byte(a.ID)
			if a.Distributed {
				resp.DistributedAccounts = append(resp.DistributedAccounts, &pb.DistributedAccount{
					Name: a.Path(), PublicKey: a.PubKey[:], CompositePublicKey: a.Composite[:], Uuid: id,
					SigningThreshold: 2,
					Participants: []*pb.Endpoint{
						{Id: 1, Name: "signer-1.invalid", Port: 12001},
						{Id: 2, Name: "signer-2.invalid", Port: 12002},
						{Id: 3, Name: "signer-3.invalid", Port: 12003},
					},
				})
				continue
			}
			resp.Accounts = append(resp.Accounts, &pb.Account{Name: a.Path(), PublicKey: a.PubKey[:], Uuid: id})
		}
	}
	return resp, nil
}

var (
	dirkOnce  sync.Once
	dirkWorld *world
	dirkErr   error
)

func pemBlock(typ string, der []byte) []byte {
	return pem.EncodeToMemory(&pem.Block{Type: typ, Bytes: der})
}

func makeCert(tmpl *x509.Certificate, parent *x509.Certificate, parentKey *ecdsa.PrivateKey) (*x509.Certificate, *ecdsa.PrivateKey, []byte, error) {
	key, err := ecdsa.GenerateKey(elliptic.P256(), rand.Reader)
	if err != nil {
		return nil, nil, nil, err
	}
	signer, signerKey := parent, parentKey
	if parent == nil {
		signer, signerKey = tmpl, key
	}
	der, err := x509.CreateCertificate(rand.Reader, tmpl, signer, &key.PublicKey, signerKey)
	if err != nil {
		return nil, nil, nil, err
	}
	cert, err := x509.ParseCertificate(der)
	return cert, key, der, err
}

func startSigner() (*signerDouble, error) {
	accounts()
	now := time.Now()
	ca, caKey, caDER, err := makeCert(&x509.Certificate{
		SerialNumber: big.NewInt(1), Subject: pkix.Name{CommonName: "verif C13 CA"},
		NotBefore: now.Add(-time.Hour), NotAfter: now.Add(48 * time.Hour),
		IsCA: true, BasicConstraintsValid: true, KeyUsage: x509.KeyUsageCertSign | x509.KeyUsageDigitalSignature,
	}, nil, nil)
	if err != nil {
		return nil, err
	}
	_, srvKey, srvDER, err := makeCert(&x509.Certificate{
		SerialNumber: big.NewInt(2), Subject: pkix.Name{CommonName: "localhost"},
		NotBefore: now.Add(-time.Hour), NotAfter: now.Add(48 * time.Hour),
		DNSNames: []string{"localhost"}, IPAddresses: []net.IP{net.IPv4(127, 0, 0, 1)},
		KeyUsage: x509.KeyUsageDigitalSignature, ExtKeyUsage: []x509.ExtKeyUsage{x509.ExtKeyUsageServerAuth},
	}, ca, caKey)
	if err != nil {
		return nil, err
	}
	_, cliKey, cliDER, err := makeCert(&x509.Certificate{
		SerialNumber: big.NewInt(3), Subject: pkix.Name{CommonName: "vouch-under-test"},
		NotBefore: now.Add(-time.Hour), NotAfter: now.Add(48 * time.Hour),
		KeyUsage: x509.KeyUsageDigitalSignature, ExtKeyUsage: []x509.ExtKeyUsage{x509.ExtKeyUsageClientAuth},
	}, ca, caKey)
	if err != nil {
		return nil, err
	}
	cliKeyDER, err := x509.MarshalPKCS8PrivateKey(cliKey)
	if err != nil {
		return nil, err
	}
	pool := x509.NewCertPool()
	pool.AddCert(ca)
	tlsCfg := &tls.Config{
		Certificates: []tls.Certificate{{Certificate: [][]byte{srvDER}, PrivateKey: srvKey}},
		ClientAuth:   tls.RequireAndVerifyClientCert,
		ClientCAs:    pool,
		MinVersion:   tls.VersionTLS13,
	}
	lis, err := net.Listen("tcp", "127.0.0.1:0")
	if err != nil {
		return nil, err
	}
	s := &signerDouble{
		script:     &Refresh{},
		endpoint:   fmt.Sprintf("127.0.0.1:%d", lis.Addr().(*net.TCPAddr).Port),
		caPEM:      pemBlock("CERTIFICATE", caDER),
		clientCert: pemBlock("CERTIFICATE", cliDER),
		clientKey:  pemBlock("PRIVATE KEY", cliKeyDER),
	}
	srv := grpc.NewServer(grpc.Creds(credentials.NewTLS(tlsCfg)))
	pb.RegisterListerServer(srv, s)
	go func() { _ = srv.Serve(lis) }()
	return s, nil
}

// newDirkWorld starts the signer double once per process (the dirk wallet
// library pools its connections per address for the life of the process).
func newDirkWorld(t *testing.T) *world {
	t.Helper()
	dirkOnce.Do(func() {
		s, err := startSigner()
		if err != nil {
			dirkErr = err
			return
		}
		dirkWorld = &world{signer: s}
	})
	if dirkErr != nil {
		t.Fatalf("harness: cannot start the signer double: %v", dirkErr)
	}
	return dirkWorld
}

func buildDirk(ctx context.Context, c *Case, w *world, vm validatorsmanager.Service, clock chaintime.Service) (manager, error) {
	if w.signer == nil {
		return nil, errors.New("harness: no signer double")
	}
	return dirkam.New(ctx,
		dirkam.WithLogLevel(zerolog.Disabled),
		dirkam.WithMonitor(nullmetrics.New()),
		dirkam.WithClientMonitor(nullmetrics.New()),
		dirkam.WithTimeout(20*time.Second),
		dirkam.WithProcessConcurrency(4),
		dirkam.WithEndpoints([]string{w.signer.endpoint}),
		dirkam.WithAccountPaths(c.Specs),
		dirkam.WithClientCert(w.signer.clientCert),
		dirkam.WithClientKey(w.signer.clientKey),
		dirkam.WithCACert(w.signer.caPEM),
		dirkam.WithValidatorsManager(vm),
		dirkam.WithDomainProvider(domainProvider{}),
		dirkam.WithFarFutureEpochProvider(farProvider{}),
		dirkam.WithCurrentEpochProvider(clock),
	)
}

// dirkKnown is the model of which accounts the dirk manager knows.  The
// statement: an offered account is used only if a specifier matches it in full,
// and a refresh that returns nothing never wipes what is already known.  The
// statement does not say what happens to the accounts of a wallet whose listing
// fails while another wallet delivers, so those stay undecided (in upper, not in
// lower) if they were known before.
type dirkKnown struct {
	lower, upper map[int]bool
}

func dirkStep(j *judge, si int, adm []int, prev *dirkKnown, knownObs map[int]bool) *dirkKnown {
	c := j.c
	r := &c.Steps[si].Refresh
	named := map[string]bool{}
	for _, s := range c.Specs {
		w, _, _ := splitSpec(s)
		named[w] = true
	}
	nowYes := map[int]bool{}
	nowMaybe := map[int]bool{}
	overObserved := false
	anyError := false
	for _, a := range accounts() {
		if !named[a.Wallet] {
			continue
		}
		if signerKind(r, a.Wallet) == "error" {
			anyError = true
		}
		if !signerOffers(r, a) {
			continue
		}
		switch adm[a.ID] {
		case admitYes:
			nowYes[a.ID] = true
		case admitUndecided:
			nowMaybe[a.ID] = true
		case admitNo:
			if knownObs[a.ID] {
				overObserved = true
			}
		}
	}
	next := &dirkKnown{lower: map[int]bool{}, upper: map[int]bool{}}
	switch {
	case len(nowYes) > 0:
		for id := range nowYes {
			next.lower[id], next.upper[id] = true, true
		}
		for id := range nowMaybe {
			next.upper[id] = true
		}
		if anyError {
			j.st.label("signer:one-wallet-failed-another-delivered")
			for id := range prev.upper {
				if signerKind(r, accounts()[id].Wallet) == "error" {
					next.upper[id] = true
				}
			}
		}
		if si > 0 {
			j.st.label("signer:listing-replaced-accounts")
		}
	case len(nowMaybe) > 0:
		// Only accounts whose admission is not decided were offered: the manager
		// may have taken them (replacing the old accounts) or seen nothing
		// (retaining them).
		for id := range prev.upper {
			next.upper[id] = true
		}
		for id := range nowMaybe {
			next.upper[id] = true
		}
		j.st.label("signer:only-undecided-delivered")
	case overObserved:
		// Only accounts that no specifier matches were taken from this listing
		// (a listed finding); whether the old accounts survive that is not decided.
		next.upper = prev.upper
		j.st.label("signer:only-overadmitted-delivered")
	default:
		next.lower, next.upper = prev.lower, prev.upper
		if si > 0 {
			j.st.label("signer:listing-delivered-nothing")
			if len(prev.lower) > 0 {
				j.st.label("signer:listing-delivered-nothing-with-accounts-known")
			}
		}
	}
	return next
}

func genSigner(t *rapid.T, c *Case, r *Refresh, si int) {
	named := []string{}
	seen := map[string]bool{}
	for _, s := range c.Specs {
		w, _, _ := splitSpec(s)
		if !seen[w] && w != "nowallet" {
			seen[w] = true
			named = append(named, w)
		}
	}
	if len(named) == 0 {
		return
	}
	mode := rapid.IntRange(0, 9).Draw(t, "signerMode")
	if si == 0 && mode > 2 {
		mode = 9 // mostly a full first listing
	}
	switch {
	case mode <= 1: // the whole signer returns nothing
		kind := rapid.SampledFrom([]string{"empty", "error"}).Draw(t, "signerAllKind")
		r.Signer = map[string]string{}
		for _, w := range named {
			r.Signer[w] = kind
		}
	case mode <= 4: // per wallet
		r.Signer = map[string]string{}
		for _, w := range named {
			k := rapid.SampledFrom([]string{"full", "full", "subset", "empty", "error"}).Draw(t, "signerKind")
			if k != "full" {
				r.Signer[w] = k
			}
		}
	}
	for _, k := range r.Signer {
		if k == "subset" {
			for _, a := range accounts() {
				if seen[a.Wallet] && rapid.IntRange(0, 2).Draw(t, "signerOmit") == 0 {
					r.SignerOmit = append(r.SignerOmit, a.ID)
				}
			}
			break
		}
	}
}

// TestDirkAccounts: the dirk account manager against the in-process signer.
func TestDirkAccounts(t *testing.T) {
	w := newDirkWorld(t)
	rapid.Check(t, func(rt *rapid.T) {
		c := genCase(rt, "dirk")
		check(rt, &c, w)
	})
}
