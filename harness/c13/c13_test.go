// Package c13 decides property C13: only configured accounts validate, and only
// while their validator is active.
//
// Subjects: the real services/accountmanager/wallet over filesystem wallets, the
// real services/accountmanager/dirk against an in-process gRPC lister, the real
// services/validatorsmanager/standard with a scripted validators provider, and
// services/accountmanager/utils (through the sync committee queries).
//
// The oracle is written from the property statement and docs/accountmanager.md:
//
//	admitted   = accounts whose wallet is the wallet named by a specifier and
//	             whose name is matched *in full* by the specifier's account
//	             expression (a specifier without account part admits the
//	             whole wallet);
//	known      = admitted accounts the manager can use (wallet manager: one of
//	             the configured passphrases unlocks them);
//	validating(e) = known accounts with a validator record such that
//	             activation <= e < exit and not slashed, keyed by validator index;
//	sync(e)    = known accounts with a validator record such that activation <= e
//	             and withdrawal is not done (withdrawable epoch reached and nothing
//	             left to withdraw);
//	a refresh that delivers nothing (empty answer or error) changes no answer.
package c13

import (
	"context"
	"errors"
	"fmt"
	"math"
	"regexp"
	"sort"
	"strings"
	"sync"
	"testing"
	"time"

	"github.com/attestantio/go-eth2-client/api"
	apiv1 "github.com/attestantio/go-eth2-client/api/v1"
	"github.com/attestantio/go-eth2-client/spec/phase0"
	walletam "github.com/attestantio/vouch/services/accountmanager/wallet"
	nullmetrics "github.com/attestantio/vouch/services/metrics/null"
	validatorsmanager "github.com/attestantio/vouch/services/validatorsmanager/standard"
	"github.com/rs/zerolog"
	e2wtypes "github.com/wealdtech/go-eth2-wallet-types/v2"
	"pgregory.net/rapid"

	"verifharness/internal/ev"
	"verifharness/internal/fakes"
)

const far = uint64(math.MaxUint64)

// Val is the beacon chain's record of the validator of one universe account.
type Val struct {
	Acct         int    `json:"acct"`
	Index        uint64 `json:"index"`
	Eligibility  uint64 `json:"eligibility"`
	Activation   uint64 `json:"activation"`
	Exit         uint64 `json:"exit"`
	Withdrawable uint64 `json:"withdrawable"`
	Slashed      bool   `json:"slashed,omitempty"`
	EffBalance   uint64 `json:"eff_balance_eth"`
}

// Refresh is the outcome of one refresh: what the beacon node knows (Vals), how
// it answers the validators request (Kind), and - for the remote signer only -
// how the signer answers the account listing (Signer, per wallet).
type Refresh struct {
	Kind string `json:"kind"` // full | subset | empty | error
	// HeadEpoch: the epoch of the chain's head at the time of the refresh.  The
	// node reports each validator's status as of this epoch; the managers' clock
	// stands at it.
	HeadEpoch uint64 `json:"head_epoch"`
	Vals      []Val  `json:"vals"`
	// Omit: account ids left out of a "subset" answer.
	Omit []int `json:"omit,omitempty"`
	// Signer (dirk only): wallet name -> full | subset | empty | error.  A wallet
	// that is not mentioned answers "full".
	Signer map[string]string `json:"signer,omitempty"`
	// SignerOmit (dirk only): account ids left out of a "subset" listing.
	SignerOmit []int `json:"signer_omit,omitempty"`
}

// Query asks all four questions for one epoch.
type Query struct {
	Epoch   uint64   `json:"epoch"`
	Indices []uint64 `json:"indices"`
}

// Step is a refresh (step 0: the construction of the manager) followed by queries.
type Step struct {
	Refresh Refresh `json:"refresh"`
	Queries []Query `json:"queries"`
}

// Case is one generated scenario.
type Case struct {
	Manager     string   `json:"manager"` // wallet | dirk
	Specs       []string `json:"specs"`
	Passphrases []string `json:"passphrases,omitempty"`
	Steps       []Step   `json:"steps"`
}

// ---------------------------------------------------------------------------
// doubles

type valProvider struct {
	mu       sync.Mutex
	mgr      string
	script   *Refresh
	calls    int
	lastKeys []phase0.BLSPubKey
}

// statusAt is the status a beacon node reports for the validator when its head
// is in the given epoch.
func statusAt(v *Val, head uint64) apiv1.ValidatorState {
	switch lifecycleLabel(v, head) {
	case "pending":
		if v.Eligibility == far {
			return apiv1.ValidatorStatePendingInitialized
		}
		return apiv1.ValidatorStatePendingQueued
	case "active-ongoing":
		return apiv1.ValidatorStateActiveOngoing
	case "active-exiting":
		return apiv1.ValidatorStateActiveExiting
	case "active-slashed":
		return apiv1.ValidatorStateActiveSlashed
	case "exited":
		return apiv1.ValidatorStateExitedUnslashed
	case "exited-slashed":
		return apiv1.ValidatorStateExitedSlashed
	case "withdrawal-possible":
		return apiv1.ValidatorStateWithdrawalPossible
	}
	return apiv1.ValidatorStateWithdrawalDone
}

func toAPI(mgr string, v *Val, head uint64) *apiv1.Validator {
	a := accounts()[v.Acct]
	return &apiv1.Validator{
		Index:   phase0.ValidatorIndex(v.Index),
		Balance: phase0.Gwei(v.EffBalance * 1_000_000_000),
		Status:  statusAt(v, head),
		Validator: &phase0.Validator{
			PublicKey:                  a.ValidatorKey(mgr),
			WithdrawalCredentials:      make([]byte, 32),
			EffectiveBalance:           phase0.Gwei(v.EffBalance * 1_000_000_000),
			Slashed:                    v.Slashed,
			ActivationEligibilityEpoch: phase0.Epoch(v.Eligibility),
			ActivationEpoch:            phase0.Epoch(v.Activation),
			ExitEpoch:                  phase0.Epoch(v.Exit),
			WithdrawableEpoch:          phase0.Epoch(v.Withdrawable),
		},
	}
}

// delivered is what a beacon node in the state of r answers when asked for the
// given public keys (no keys = no filter, as in the beacon API).
func delivered(mgr string, r *Refresh, keys map[phase0.BLSPubKey]bool) []*Val {
	if r.Kind == "empty" || r.Kind == "error" {
		return nil
	}
	omit := map[int]bool{}
	if r.Kind == "subset" {
		for _, id := range r.Omit {
			omit[id] = true
		}
	}
	var res []*Val
	for i := range r.Vals {
		v := &r.Vals[i]
		if omit[v.Acct] {
			continue
		}
		if len(keys) > 0 && !keys[accounts()[v.Acct].ValidatorKey(mgr)] {
			continue
		}
		res = append(res, v)
	}
	return res
}

func (p *valProvider) Validators(_ context.Context, opts *api.ValidatorsOpts) (*api.Response[map[phase0.ValidatorIndex]*apiv1.Validator], error) {
	p.mu.Lock()
	defer p.mu.Unlock()
	p.calls++
	p.lastKeys = append([]phase0.BLSPubKey(nil), opts.PubKeys...)
	if p.script.Kind == "error" {
		return nil, errors.New("scripted validators failure")
	}
	keys := map[phase0.BLSPubKey]bool{}
	for _, k := range opts.PubKeys {
		keys[k] = true
	}
	data := map[phase0.ValidatorIndex]*apiv1.Validator{}
	for _, v := range delivered(p.mgr, p.script, keys) {
		data[phase0.ValidatorIndex(v.Index)] = toAPI(p.mgr, v, p.script.HeadEpoch)
	}
	return &api.Response[map[phase0.ValidatorIndex]*apiv1.Validator]{Data: data, Metadata: map[string]any{}}, nil
}

type specProvider struct{}

func (specProvider) Spec(context.Context, *api.SpecOpts) (*api.Response[map[string]any], error) {
	return &api.Response[map[string]any]{Data: map[string]any{"SLOTS_PER_EPOCH": uint64(32)}, Metadata: map[string]any{}}, nil
}

type farProvider struct{}

func (farProvider) FarFutureEpoch(context.Context) (phase0.Epoch, error) {
	return phase0.Epoch(far), nil
}

type domainProvider struct{}

func (domainProvider) Domain(context.Context, phase0.DomainType, phase0.Epoch) (phase0.Domain, error) {
	return phase0.Domain{}, nil
}

func (domainProvider) GenesisDomain(context.Context, phase0.DomainType) (phase0.Domain, error) {
	return phase0.Domain{}, nil
}

// manager is what the rest of vouch uses of an account manager.
type manager interface {
	Refresh(ctx context.Context)
	ValidatingAccountsForEpoch(ctx context.Context, epoch phase0.Epoch) (map[phase0.ValidatorIndex]e2wtypes.Account, error)
	ValidatingAccountsForEpochByIndex(ctx context.Context, epoch phase0.Epoch, indices []phase0.ValidatorIndex) (map[phase0.ValidatorIndex]e2wtypes.Account, error)
	SyncCommitteeAccountsForEpoch(ctx context.Context, epoch phase0.Epoch) (map[phase0.ValidatorIndex]e2wtypes.Account, error)
	SyncCommitteeAccountsForEpochByIndex(ctx context.Context, epoch phase0.Epoch, indices []phase0.ValidatorIndex) (map[phase0.ValidatorIndex]e2wtypes.Account, error)
	AccountByPublicKey(ctx context.Context, pubkey phase0.BLSPubKey) (e2wtypes.Account, error)
}

// world is what a process shares between cases: the wallet stores on disk and
// the signer double.
type world struct {
	locations []string
	signer    *signerDouble
}

// ---------------------------------------------------------------------------
// reference model

// splitSpec splits a specifier in its wallet and account expression.
func splitSpec(spec string) (wallet string, expr string, hasExpr bool) {
	i := strings.Index(spec, "/")
	if i < 0 {
		return spec, "", false
	}
	return spec[:i], spec[i+1:], true
}

// fullMatch: does the account expression match the whole name?  An expression
// that is not a regular expression matches nothing.
func fullMatch(expr string, name string) bool {
	if _, err := regexp.Compile(expr); err != nil {
		return false
	}
	re, err := regexp.Compile(`^(?:` + expr + `)$`)
	if err != nil {
		return false
	}
	return re.MatchString(name)
}

// admission of an account by the list of specifiers: yes / no / undecided.
// Undecided are
//   - the form `wallet/` (empty account expression), which the documentation
//     does not define and which the two managers read differently (dirk: whole
//     wallet, pinned by its unit test; wallet: nothing);
//   - an account of another wallet whose wallet name is fully matched by the
//     wallet part of a specifier read as a regular expression (and whose name the
//     account expression matches in full): "fully matches one of the configured
//     account specifiers" can be read with the whole specifier as one expression,
//     so such an account may be used or not.
const (
	admitNo = iota
	admitUndecided
	admitYes
)

// walletPartRegexMatches: the wallet part of the specifier is not the account's
// wallet name but, read as a regular expression, matches it in full.
func walletPartRegexMatches(w string, a *Acct) bool {
	if w == a.Wallet || regexp.QuoteMeta(w) == w {
		return false
	}
	re, err := regexp.Compile(`^(?:` + w + `)$`)
	return err == nil && re.MatchString(a.Wallet)
}

func admissionWhy(specs []string, a *Acct) (int, string) {
	res, why := admitNo, ""
	for _, s := range specs {
		w, expr, hasExpr := splitSpec(s)
		if w != a.Wallet {
			if walletPartRegexMatches(w, a) && (!hasExpr || expr == "" || fullMatch(expr, a.Name)) && res < admitUndecided {
				res, why = admitUndecided, "wallet-part-regex-ambiguous"
			}
			continue
		}
		switch {
		case !hasExpr:
			return admitYes, ""
		case expr == "":
			if res < admitUndecided {
				res, why = admitUndecided, "trailing-slash-undecided"
			}
		case fullMatch(expr, a.Name):
			return admitYes, ""
		}
	}
	return res, why
}

func admission(specs []string, a *Acct) int {
	res, _ := admissionWhy(specs, a)
	return res
}

// overAdmitSignature names the shape of an over-admission.  This is only the
// *classification* of an established disagreement (the account is known although
// no specifier matches it in full); it looks at how the specifier text would
// read if its parts were pasted together without grouping.
func overAdmitSignature(specs []string, a *Acct) (string, string) {
	path := a.Path()
	trim := func(expr string) string { return strings.TrimSuffix(strings.TrimPrefix(expr, "^"), "$") }
	for _, quote := range []bool{true, false} {
		for _, s := range specs {
			w, expr, hasExpr := splitSpec(s)
			if !hasExpr || expr == "" || !strings.Contains(expr, "|") {
				continue
			}
			if quote {
				w = regexp.QuoteMeta(w)
			}
			if re, err := regexp.Compile("^" + w + "/" + trim(expr) + "$"); err == nil && re.MatchString(path) {
				return "overadmit:alternation-not-grouped", s
			}
		}
	}
	return "overadmit", ""
}

func unlockable(c *Case, a *Acct) bool {
	if c.Manager != "wallet" {
		return true
	}
	for _, p := range c.Passphrases {
		if p == a.Passphrase {
			return true
		}
	}
	return false
}

func activeAt(v *Val, e uint64) bool { return v.Activation <= e && e < v.Exit && !v.Slashed }

func withdrawalDone(v *Val, e uint64) bool { return v.Withdrawable <= e && v.EffBalance == 0 }

func syncEligibleAt(v *Val, e uint64) bool { return v.Activation <= e && !withdrawalDone(v, e) }

func lifecycleLabel(v *Val, e uint64) string {
	switch {
	case v.Activation > e:
		return "pending"
	case e < v.Exit && v.Slashed:
		return "active-slashed"
	case e < v.Exit && v.Exit != far:
		return "active-exiting"
	case e < v.Exit:
		return "active-ongoing"
	case e < v.Withdrawable && v.Slashed:
		return "exited-slashed"
	case e < v.Withdrawable:
		return "exited"
	case v.EffBalance == 0:
		return "withdrawal-done"
	default:
		return "withdrawal-possible"
	}
}

func nearBoundary(v *Val, e uint64) bool {
	for _, b := range []uint64{v.Activation, v.Exit, v.Withdrawable} {
		if b == far {
			continue
		}
		if e+1 >= b && e <= b+1 {
			return true
		}
	}
	return false
}

// ---------------------------------------------------------------------------
// run + judge

type stats struct {
	labels       map[string]bool
	strictSubset bool
	boundary     bool
}

func (s *stats) label(l string) { s.labels[l] = true }

type judge struct {
	t  ev.TB
	c  *Case
	st *stats
}

// violation reports through ev; a listed open finding lets the judgement go on.
func (j *judge) violation(sig string, format string, args ...any) {
	ev.Violation(j.t, sig, j.c, format, args...)
}

func buildManager(ctx context.Context, c *Case, w *world, vp *valProvider, clock *fakes.VClock) (manager, error) {
	vm, err := validatorsmanager.New(ctx,
		validatorsmanager.WithLogLevel(zerolog.Disabled),
		validatorsmanager.WithMonitor(nullmetrics.New()),
		validatorsmanager.WithClientMonitor(nullmetrics.New()),
		validatorsmanager.WithValidatorsProvider(vp),
		validatorsmanager.WithFarFutureEpoch(phase0.Epoch(far)),
	)
	if err != nil {
		return nil, fmt.Errorf("harness: validators manager: %w", err)
	}
	switch c.Manager {
	case "wallet":
		pass := make([][]byte, 0, len(c.Passphrases))
		for _, p := range c.Passphrases {
			pass = append(pass, []byte(p))
		}
		return walletam.New(ctx,
			walletam.WithLogLevel(zerolog.Disabled),
			walletam.WithMonitor(nullmetrics.New()),
			walletam.WithProcessConcurrency(4),
			walletam.WithLocations(w.locations),
			walletam.WithAccountPaths(c.Specs),
			walletam.WithPassphrases(pass),
			walletam.WithValidatorsManager(vm),
			walletam.WithSpecProvider(specProvider{}),
			walletam.WithFarFutureEpochProvider(farProvider{}),
			walletam.WithDomainProvider(domainProvider{}),
			walletam.WithCurrentEpochProvider(clock),
		)
	case "dirk":
		return buildDirk(ctx, c, w, vm, clock)
	}
	return nil, fmt.Errorf("harness: unknown manager %q", c.Manager)
}

func runAndJudge(t ev.TB, c *Case, w *world) *stats {
	st := &stats{labels: map[string]bool{}}
	j := &judge{t: t, c: c, st: st}
	zerolog.SetGlobalLevel(zerolog.Disabled)
	ctx, cancel := context.WithTimeout(context.Background(), 60*time.Second)
	defer cancel()
	st.label("manager:" + c.Manager)
	if len(c.Steps) == 0 || len(c.Specs) == 0 {
		t.Fatalf("harness: malformed case (no steps or no specifiers)")
	}

	// Model of admission (constant over the case).
	univ := accounts()
	adm := make([]int, len(univ))
	perSpecStrict := false
	for _, s := range c.Specs {
		wn, expr, hasExpr := splitSpec(s)
		if !hasExpr || expr == "" {
			continue
		}
		n, tot := 0, 0
		for _, a := range univ {
			if a.Wallet == wn {
				tot++
				if fullMatch(expr, a.Name) && unlockable(c, a) {
					n++
				}
			}
		}
		if n > 0 && n < tot {
			perSpecStrict = true
		}
	}
	st.strictSubset = perSpecStrict
	for i, a := range univ {
		adm[i] = admission(c.Specs, a)
	}

	vp := &valProvider{mgr: c.Manager, script: &c.Steps[0].Refresh}
	clock := fakes.NewVClock(time.Unix(1600000000, 0), 12*time.Second, 32)
	clock.SetSlot(c.Steps[0].Refresh.HeadEpoch*32, 0)
	if w.signer != nil {
		w.signer.setScript(&c.Steps[0].Refresh)
	}
	mgr, err := buildManager(ctx, c, w, vp, clock)
	if err != nil {
		if strings.HasPrefix(err.Error(), "harness") {
			t.Fatalf("%v", err)
		}
		if c.Manager == "wallet" && c.Steps[0].Refresh.Kind == "error" {
			// The wallet manager refuses to start without validator states.
			st.label("wallet-construct-refused-on-validators-error")
			return st
		}
		t.Fatalf("harness: cannot construct %s account manager: %v", c.Manager, err)
	}

	// The model's state.
	dk := &dirkKnown{lower: map[int]bool{}, upper: map[int]bool{}} // dirk: what is known according to the model
	vals := map[int]*Val{}                                         // acct id -> validator record as last delivered
	valsUndecided := false
	for si := range c.Steps {
		step := &c.Steps[si]
		if si > 0 {
			vp.mu.Lock()
			vp.script = &step.Refresh
			vp.mu.Unlock()
			if w.signer != nil {
				w.signer.setScript(&step.Refresh)
			}
			clock.SetSlot(step.Refresh.HeadEpoch*32, 0)
			mgr.Refresh(ctx)
		}
		where := fmt.Sprintf("step %d (%s refresh, head epoch %d)", si, step.Refresh.Kind, step.Refresh.HeadEpoch)

		// --- which accounts are known?
		knownObs := map[int]bool{}
		for _, a := range univ {
			acc, err := mgr.AccountByPublicKey(ctx, a.ValidatorKey(c.Manager))
			if err != nil {
				continue
			}
			if acc == nil {
				j.violation("known-account-nil", "%s: AccountByPublicKey(%s) returned neither account nor error", where, a.Path())
				continue
			}
			var got phase0.BLSPubKey
			copy(got[:], acc.PublicKey().Marshal())
			if got != a.PubKey || acc.Name() != a.Name || validatorKeyOf(acc) != a.ValidatorKey(c.Manager) {
				j.violation("known-account-mismatch", "%s: AccountByPublicKey(%s) returned account %q with another key or name", where, a.Path(), acc.Name())
				continue
			}
			knownObs[a.ID] = true
		}
		var lower, upper map[int]bool
		retained := false
		if c.Manager == "wallet" {
			lower, upper = j.walletKnown(adm)
		} else {
			next := dirkStep(j, si, adm, dk, knownObs)
			retained = si > 0 && len(dk.lower) > 0 && sameSet(next.lower, dk.lower) && !refreshDeliversAccounts(c, &step.Refresh)
			dk = next
			lower, upper = dk.lower, dk.upper
		}
		for _, a := range univ {
			switch {
			case knownObs[a.ID] && !upper[a.ID]:
				if !unlockable(c, a) {
					j.violation("known-without-passphrase", "%s: account %s is in use although none of the passphrases %q unlocks it", where, a.Path(), c.Passphrases)
					break
				}
				if adm[a.ID] != admitNo {
					j.violation("known-after-signer-dropped-it", "%s: account %s is in use although the signer's last non-empty listing does not offer it", where, a.Path())
					break
				}
				sig, spec := overAdmitSignature(c.Specs, a)
				j.violation(sig, "%s: account %s is in use although no specifier of %q matches it in full (specifier involved: %q)", where, a.Path(), c.Specs, spec)
			case !knownObs[a.ID] && lower[a.ID]:
				if retained {
					j.violation("accounts-wiped-by-empty-listing", "%s: account %s was known, the signer's listing returned nothing, and the account is no longer in use", where, a.Path())
					break
				}
				j.violation("underadmit", "%s: account %s is matched in full by a specifier of %q (and is offered/unlockable) but is not in use", where, a.Path(), c.Specs)
			}
			if adm[a.ID] == admitUndecided {
				_, why := admissionWhy(c.Specs, a)
				st.label(why)
				if knownObs[a.ID] {
					st.label(why + ":in-use")
				}
			}
		}
		if len(knownObs) == 0 {
			st.label("no-known-accounts")
		}

		// --- validator records: what the node delivered for the known accounts.
		requested := map[phase0.BLSPubKey]bool{}
		for id := range knownObs {
			requested[univ[id].ValidatorKey(c.Manager)] = true
		}
		changed := false
		if d := delivered(c.Manager, &step.Refresh, requested); len(d) > 0 {
			if c.Manager == "dirk" && len(knownObs) == 0 {
				// The dirk manager knows no account: whether it asks the node at
				// all (for everything) is its own business, and nothing can be
				// reported as long as no account is known.  What it holds after
				// this is not decided until the next refresh that delivers.
				valsUndecided = true
			} else {
				vals = map[int]*Val{}
				for _, v := range d {
					vals[v.Acct] = v
				}
				changed = true
				valsUndecided = false
			}
		}
		if si > 0 && !changed {
			st.label("refresh-delivered-nothing:" + step.Refresh.Kind)
			if len(vals) > 0 {
				st.label("refresh-delivered-nothing-with-validators-known")
			}
		}
		if si > 0 && changed {
			st.label("refresh-replaced-validators:" + step.Refresh.Kind)
		}
		prefix := ""
		if si > 0 && !changed {
			prefix = "after-empty-refresh/"
		}

		// --- queries
		for qi := range step.Queries {
			if valsUndecided && len(knownObs) > 0 {
				st.label("validators-undecided-after-accountless-refresh")
				break
			}
			q := &step.Queries[qi]
			wantVal := map[uint64]int{}
			wantSync := map[uint64]int{}
			for id, v := range vals {
				if !knownObs[id] {
					continue
				}
				if nearBoundary(v, q.Epoch) {
					st.boundary = true
				}
				st.label("state-at-query:" + lifecycleLabel(v, q.Epoch))
				if statusAt(v, step.Refresh.HeadEpoch).IsPending() && v.Activation <= q.Epoch && changed {
					st.label("pending-at-refresh-active-at-query")
				}
				if statusAt(v, step.Refresh.HeadEpoch).IsActive() && v.Exit <= q.Epoch && changed {
					st.label("active-at-refresh-exited-at-query")
				}
				if c.Manager == "dirk" && univ[id].Distributed {
					st.label("distributed-account-with-validator:" + lifecycleLabel(v, q.Epoch))
				}
				if activeAt(v, q.Epoch) {
					wantVal[v.Index] = id
				}
				if syncEligibleAt(v, q.Epoch) {
					wantSync[v.Index] = id
				}
			}
			idx := make([]phase0.ValidatorIndex, 0, len(q.Indices))
			inIdx := map[uint64]bool{}
			for _, i := range q.Indices {
				idx = append(idx, phase0.ValidatorIndex(i))
				inIdx[i] = true
			}
			restrict := func(m map[uint64]int) map[uint64]int {
				r := map[uint64]int{}
				for i, id := range m {
					if inIdx[i] {
						r[i] = id
					}
				}
				return r
			}
			qwhere := fmt.Sprintf("%s, query %d at epoch %d", where, qi, q.Epoch)
			got, err := mgr.ValidatingAccountsForEpoch(ctx, phase0.Epoch(q.Epoch))
			j.compare(prefix+"validating", qwhere, wantVal, got, err, vals, q.Epoch)
			got, err = mgr.SyncCommitteeAccountsForEpoch(ctx, phase0.Epoch(q.Epoch))
			j.compare(prefix+"sync", qwhere, wantSync, got, err, vals, q.Epoch)
			got, err = mgr.ValidatingAccountsForEpochByIndex(ctx, phase0.Epoch(q.Epoch), idx)
			j.compare(prefix+"validating-by-index", qwhere+fmt.Sprintf(" indices %v", q.Indices), restrict(wantVal), got, err, vals, q.Epoch)
			got, err = mgr.SyncCommitteeAccountsForEpochByIndex(ctx, phase0.Epoch(q.Epoch), idx)
			j.compare(prefix+"sync-by-index", qwhere+fmt.Sprintf(" indices %v", q.Indices), restrict(wantSync), got, err, vals, q.Epoch)
			if len(wantVal) > 0 && len(restrict(wantVal)) < len(wantVal) && len(restrict(wantVal)) > 0 {
				st.label("by-index-selects-strict-subset")
			}
			if len(wantSync) > len(wantVal) {
				st.label("sync-eligible-beyond-validating")
			}
		}
	}
	return st
}

// refreshDeliversAccounts: does the listing of this refresh offer at least one
// account that the specifiers admit?  (Always true for the wallet manager,
// whose wallets are on disk.)
func refreshDeliversAccounts(c *Case, r *Refresh) bool {
	if c.Manager != "dirk" {
		return true
	}
	for _, a := range accounts() {
		if signerOffers(r, a) && admission(c.Specs, a) == admitYes {
			return true
		}
	}
	return false
}

// walletKnown returns the lower and upper bound of the set of accounts the
// wallet manager knows: a function of the configuration alone (the wallets are
// on disk).
func (j *judge) walletKnown(adm []int) (map[int]bool, map[int]bool) {
	c := j.c
	lower, upper := map[int]bool{}, map[int]bool{}
	for _, a := range accounts() {
		if !unlockable(c, a) {
			if adm[a.ID] != admitNo {
				j.st.label("admitted-but-no-passphrase")
			}
			continue
		}
		if adm[a.ID] == admitYes {
			lower[a.ID] = true
		}
		if adm[a.ID] != admitNo {
			upper[a.ID] = true
		}
	}
	return lower, upper
}

func sameSet(a, b map[int]bool) bool {
	if len(a) != len(b) {
		return false
	}
	for k := range a {
		if !b[k] {
			return false
		}
	}
	return true
}

func (j *judge) compare(kind, where string, want map[uint64]int, got map[phase0.ValidatorIndex]e2wtypes.Account, err error, vals map[int]*Val, epoch uint64) {
	if err != nil {
		j.violation(kind+"-error", "%s: %s query returned error %v", where, kind, err)
		return
	}
	univ := accounts()
	describe := func(id int) string {
		v := vals[id]
		if v == nil {
			return univ[id].Path() + " (no validator record)"
		}
		return fmt.Sprintf("%s (index %d activation %s exit %s withdrawable %s slashed %v effective balance %d ETH: %s)", univ[id].Path(), v.Index, ep(v.Activation), ep(v.Exit), ep(v.Withdrawable), v.Slashed, v.EffBalance, lifecycleLabel(v, epoch))
	}
	wantIdx := make([]uint64, 0, len(want))
	for i := range want {
		wantIdx = append(wantIdx, i)
	}
	sort.Slice(wantIdx, func(a, b int) bool { return wantIdx[a] < wantIdx[b] })
	for _, i := range wantIdx {
		acc, ok := got[phase0.ValidatorIndex(i)]
		if !ok {
			j.violation(kind+"-missing", "%s: %s answer lacks index %d = %s", where, kind, i, describe(want[i]))
			continue
		}
		if acc == nil {
			j.violation(kind+"-nil-account", "%s: %s answer has a nil account at index %d", where, kind, i)
			continue
		}
		var pk phase0.BLSPubKey
		copy(pk[:], acc.PublicKey().Marshal())
		if pk != univ[want[i]].PubKey {
			other := "an unknown key"
			if o := byPubKey[pk]; o != nil {
				other = o.Path()
			}
			j.violation(kind+"-wrong-account", "%s: %s answer maps index %d to %s, the validator with that index is %s", where, kind, i, other, describe(want[i]))
		}
	}
	gotIdx := make([]uint64, 0, len(got))
	for i := range got {
		gotIdx = append(gotIdx, uint64(i))
	}
	sort.Slice(gotIdx, func(a, b int) bool { return gotIdx[a] < gotIdx[b] })
	for _, i := range gotIdx {
		if _, ok := want[i]; ok {
			continue
		}
		acc := got[phase0.ValidatorIndex(i)]
		who := "nil account"
		if acc != nil {
			var pk phase0.BLSPubKey
			copy(pk[:], acc.PublicKey().Marshal())
			if o := byPubKey[pk]; o != nil {
				who = describe(o.ID)
			} else {
				who = "account " + acc.Name() + " with a key outside the universe"
			}
		}
		j.violation(kind+"-extra", "%s: %s answer contains index %d = %s", where, kind, i, who)
	}
}

func ep(e uint64) string {
	if e == far {
		return "far-future"
	}
	return fmt.Sprintf("%d", e)
}

func check(t ev.TB, c *Case, w *world) {
	st := runAndJudge(t, c, w)
	nontrivial := st.strictSubset && st.boundary
	labels := make([]string, 0, len(st.labels)+4)
	for l := range st.labels {
		labels = append(labels, l)
	}
	if st.strictSubset {
		labels = append(labels, "specifier-admits-strict-subset-of-wallet")
	}
	if st.boundary {
		labels = append(labels, "query-within-1-epoch-of-status-change")
	}
	for _, s := range c.Specs {
		labels = append(labels, "spec:"+specShape(s))
	}
	sort.Strings(labels)
	labels = dedup(labels)
	ev.Case(nontrivial, ev.Hash(c), labels...)
	if nontrivial {
		ev.Sample(c)
	}
}

func dedup(s []string) []string {
	out := s[:0]
	for i, x := range s {
		if i == 0 || x != s[i-1] {
			out = append(out, x)
		}
	}
	return out
}

func specShape(s string) string {
	_, expr, hasExpr := splitSpec(s)
	switch {
	case !hasExpr:
		return "wallet-only"
	case expr == "":
		return "trailing-slash"
	}
	if _, err := regexp.Compile(expr); err != nil {
		return "invalid-regex"
	}
	shape := "plain"
	if strings.ContainsAny(expr, `.*+?[](){}\`) {
		shape = "regex"
	}
	if strings.Contains(expr, "|") {
		shape = "alternation"
	}
	if strings.HasPrefix(expr, "^") || strings.HasSuffix(expr, "$") {
		shape += "+anchor"
	}
	return shape
}

// ---------------------------------------------------------------------------
// generator

var plainExprs = []string{
	"a", "aa", "ab", "b", "cb", "a.c", "axc", "Val 1", "Val 10", "x", "A",
	"a.*", ".*b", ".*", ".+", ".", "..", "a*", "a+", "a?b", "[ab]", "a[a-c]", "a[^b]c", `a\.c`,
	"Val 1.*", "Val 10?", "Val.*[02468]", "Val [0-9]+", "(?i)val 1", "a{2}", "(?:a|c)b", "(a|b)", "c?b",
}

var invalidExprs = []string{"a(", "[a", "a.***", "a)"}

func genExpr(t *rapid.T) string {
	var e string
	switch rapid.IntRange(0, 9).Draw(t, "exprKind") {
	case 0, 1, 2, 3, 4:
		e = rapid.SampledFrom(plainExprs).Draw(t, "expr")
	case 5, 6, 7, 8:
		n := rapid.IntRange(2, 3).Draw(t, "nAlt")
		parts := make([]string, n)
		for i := range parts {
			parts[i] = rapid.SampledFrom(plainExprs).Draw(t, "alt")
		}
		if rapid.IntRange(0, 11).Draw(t, "emptyAlt") == 0 {
			parts[rapid.IntRange(0, n-1).Draw(t, "emptyAltPos")] = ""
		}
		e = strings.Join(parts, "|")
		if rapid.IntRange(0, 5).Draw(t, "grouped") == 0 {
			e = "(" + e + ")"
		}
	default:
		return rapid.SampledFrom(invalidExprs).Draw(t, "invalid")
	}
	switch rapid.IntRange(0, 7).Draw(t, "anchor") {
	case 0:
		e = "^" + e
	case 1:
		e += "$"
	case 2:
		e = "^" + e + "$"
	}
	return e
}

func genSpec(t *rapid.T, mgr string) string {
	w := rapid.SampledFrom([]string{"w1", "w1", "w10", "w.1", "wx1", "w1", "w10", "w.1", "wx1", "nowallet"}).Draw(t, "wallet")
	switch rapid.IntRange(0, 11).Draw(t, "specForm") {
	case 0, 1:
		return w
	case 2:
		if mgr == "wallet" {
			return w + "/"
		}
	}
	return w + "/" + genExpr(t)
}

func genVal(t *rapid.T, acct int, index uint64) Val {
	v := Val{Acct: acct, Index: index, Eligibility: far, Activation: far, Exit: far, Withdrawable: far, EffBalance: 32}
	stage := rapid.IntRange(0, 9).Draw(t, "stage")
	if stage == 0 {
		if rapid.Bool().Draw(t, "tinyDeposit") {
			v.EffBalance = 0
		}
		return v // deposited, not yet eligible
	}
	v.Eligibility = rapid.Uint64Range(0, 120).Draw(t, "eligibility")
	if stage == 1 {
		return v // queued
	}
	v.Activation = v.Eligibility + rapid.SampledFrom([]uint64{0, 1, 4, 5, 30}).Draw(t, "activationDelay")
	if stage <= 5 {
		return v // active (or about to be), no exit
	}
	setExit(t, &v)
	return v
}

func setExit(t *rapid.T, v *Val) {
	v.Exit = v.Activation + rapid.SampledFrom([]uint64{0, 1, 2, 10, 50, 256}).Draw(t, "exitAfter")
	v.Withdrawable = v.Exit + rapid.SampledFrom([]uint64{0, 1, 2, 27, 256}).Draw(t, "withdrawableAfter")
	v.Slashed = rapid.IntRange(0, 2).Draw(t, "slashed") == 0
	if rapid.IntRange(0, 2).Draw(t, "withdrawn") == 0 {
		v.EffBalance = 0
	} else if rapid.Bool().Draw(t, "penalised") {
		v.EffBalance = 31
	}
}

func evolve(t *rapid.T, v *Val) {
	switch {
	case v.Eligibility == far:
		v.Eligibility = rapid.Uint64Range(0, 120).Draw(t, "eligibility")
		v.EffBalance = 32
	case v.Activation == far:
		v.Activation = v.Eligibility + rapid.SampledFrom([]uint64{0, 1, 4, 5, 30}).Draw(t, "activationDelay")
	case v.Exit == far:
		setExit(t, v)
	default:
		v.EffBalance = 0
	}
}

func genEpoch(t *rapid.T, vals []Val, head uint64) uint64 {
	var bounds, ahead []uint64
	for i := range vals {
		for _, b := range []uint64{vals[i].Activation, vals[i].Exit, vals[i].Withdrawable} {
			if b != far {
				bounds = append(bounds, b)
				if b > head {
					ahead = append(ahead, b)
				}
			}
		}
	}
	k := rapid.IntRange(0, 11).Draw(t, "epochKind")
	switch {
	case len(bounds) > 0 && k <= 4:
		b := rapid.SampledFrom(bounds).Draw(t, "boundary")
		switch rapid.IntRange(0, 3).Draw(t, "delta") {
		case 0:
			if b > 0 {
				return b - 1
			}
			return b
		case 1:
			return b + 1
		}
		return b
	case len(ahead) > 0 && k <= 7:
		// a status change that lies ahead of the head at refresh time
		return rapid.SampledFrom(ahead).Draw(t, "boundaryAhead") + rapid.SampledFrom([]uint64{0, 0, 1, 3}).Draw(t, "after")
	case k <= 8:
		// the head epoch and the look-ahead of duty preparation
		return head + rapid.SampledFrom([]uint64{0, 1, 1, 2}).Draw(t, "lookAhead")
	case k == 9:
		return 0
	case k == 10:
		return rapid.SampledFrom([]uint64{1 << 40, math.MaxInt64 - 1, math.MaxInt64}).Draw(t, "hugeEpoch")
	}
	return rapid.Uint64Range(0, 700).Draw(t, "epoch")
}

// genHead places the head of the chain shortly before, at or after a status
// change, or anywhere.
func genHead(t *rapid.T, vals []Val) uint64 {
	var bounds []uint64
	for i := range vals {
		for _, b := range []uint64{vals[i].Activation, vals[i].Exit, vals[i].Withdrawable} {
			if b != far {
				bounds = append(bounds, b)
			}
		}
	}
	if len(bounds) > 0 && rapid.IntRange(0, 3).Draw(t, "headNearBoundary") > 0 {
		b := rapid.SampledFrom(bounds).Draw(t, "headBoundary")
		back := rapid.SampledFrom([]uint64{0, 1, 1, 2, 3, 10}).Draw(t, "headBack")
		if back > b {
			return 0
		}
		return b - back
	}
	return rapid.Uint64Range(0, 300).Draw(t, "head")
}

func genCase(t *rapid.T, mgr string) Case {
	univ := accounts()
	c := Case{Manager: mgr}
	nSpecs := rapid.IntRange(1, 4).Draw(t, "nSpecs")
	for i := 0; i < nSpecs; i++ {
		c.Specs = append(c.Specs, genSpec(t, mgr))
	}
	if mgr == "wallet" {
		c.Passphrases = rapid.SampledFrom([][]string{{"p1", "p2"}, {"p1", "p2"}, {"p2", "p1"}, {"p1"}, {"p2"}, {"bad", "p1"}, {"bad", "p2", "p1"}, {"bad"}}).Draw(t, "passphrases")
	}
	// Validators: a handful, mostly of accounts in the wallets the specifiers name.
	named := map[string]bool{}
	for _, s := range c.Specs {
		w, _, _ := splitSpec(s)
		named[w] = true
	}
	var preferred, all []int
	for _, a := range univ {
		all = append(all, a.ID)
		if named[a.Wallet] && admission(c.Specs, a) == admitYes {
			preferred = append(preferred, a.ID)
		}
	}
	if len(preferred) == 0 {
		for _, a := range univ {
			if named[a.Wallet] {
				preferred = append(preferred, a.ID)
			}
		}
	}
	nVals := rapid.IntRange(0, 10).Draw(t, "nVals")
	seenAcct := map[int]bool{}
	seenIdx := map[uint64]bool{}
	var vals []Val
	for i := 0; i < nVals; i++ {
		pool := all
		if len(preferred) > 0 && rapid.IntRange(0, 4).Draw(t, "preferNamedWallet") > 0 {
			pool = preferred
		}
		id := rapid.SampledFrom(pool).Draw(t, "valAcct")
		idx := rapid.Uint64Range(0, 40).Draw(t, "valIndex")
		if rapid.IntRange(0, 9).Draw(t, "bigIndex") == 0 {
			idx = rapid.Uint64Range(1_000_000, 1_000_050).Draw(t, "valIndexBig")
		}
		if seenAcct[id] || seenIdx[idx] {
			continue
		}
		seenAcct[id], seenIdx[idx] = true, true
		vals = append(vals, genVal(t, id, idx))
	}
	head := uint64(0)
	nSteps := rapid.IntRange(1, 4).Draw(t, "nSteps")
	for si := 0; si < nSteps; si++ {
		if si > 0 {
			// the chain moves on
			nEv := rapid.IntRange(0, 3).Draw(t, "nEvolve")
			for k := 0; k < nEv && len(vals) > 0; k++ {
				evolve(t, &vals[rapid.IntRange(0, len(vals)-1).Draw(t, "evolveWhich")])
			}
		}
		if si == 0 {
			head = genHead(t, vals)
		} else {
			head += rapid.SampledFrom([]uint64{0, 1, 1, 2, 5, 40}).Draw(t, "headAdvance")
		}
		r := Refresh{HeadEpoch: head, Vals: append([]Val(nil), vals...)}
		if si == 0 {
			r.Kind = rapid.SampledFrom([]string{"full", "full", "full", "full", "full", "full", "subset", "empty", "error"}).Draw(t, "kind0")
		} else {
			r.Kind = rapid.SampledFrom([]string{"full", "full", "subset", "empty", "empty", "error", "error"}).Draw(t, "kind")
		}
		if r.Kind == "subset" {
			for i := range vals {
				if rapid.IntRange(0, 2).Draw(t, "omit") == 0 {
					r.Omit = append(r.Omit, vals[i].Acct)
				}
			}
		}
		if mgr == "dirk" {
			genSigner(t, &c, &r, si)
		}
		st := Step{Refresh: r}
		nQ := rapid.IntRange(1, 4).Draw(t, "nQueries")
		for qi := 0; qi < nQ; qi++ {
			st.Queries = append(st.Queries, Query{Epoch: genEpoch(t, vals, head)})
		}
		for qi := range st.Queries {
			q := &st.Queries[qi]
			q.Indices = []uint64{}
			for i := range vals {
				if rapid.IntRange(0, 2).Draw(t, "pickIndex") > 0 {
					q.Indices = append(q.Indices, vals[i].Index)
				}
			}
			if rapid.Bool().Draw(t, "strangerIndex") {
				q.Indices = append(q.Indices, rapid.Uint64Range(0, 60).Draw(t, "stranger"))
			}
		}
		c.Steps = append(c.Steps, st)
	}
	return c
}

// ---------------------------------------------------------------------------
// tests

func newWalletWorld(t *testing.T) *world {
	return &world{locations: buildWalletStores(t, t.TempDir())}
}

// TestWalletAccounts: the wallet account manager over filesystem wallets.
func TestWalletAccounts(t *testing.T) {
	w := newWalletWorld(t)
	rapid.Check(t, func(rt *rapid.T) {
		c := genCase(rt, "wallet")
		check(rt, &c, w)
	})
}

// TestReplay re-executes a saved case without the property library.
func TestReplay(t *testing.T) {
	f := ev.ReplayFile()
	if f == "" {
		t.Skip("no replay file")
	}
	var c Case
	if _, err := ev.LoadCase(f, &c); err != nil {
		t.Fatalf("cannot load %s: %v", f, err)
	}
	var w *world
	switch c.Manager {
	case "wallet":
		w = newWalletWorld(t)
	case "dirk":
		w = newDirkWorld(t)
	default:
		t.Fatalf("harness: unknown manager %q", c.Manager)
	}
	check(t, &c, w)
	ev.ReplayPassed()
}
