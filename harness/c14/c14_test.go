// Package c14 decides property C14: every slot/committee pair with a duty in a
// slot after the current one is subscribed (whatever other duties of the epoch
// lie in the past); a validator is marked aggregator exactly when the
// consensus-spec selection rule on its slot signature says so; after attesting,
// an aggregation job exists for every committee of the slot in which one of
// our validators is a selected aggregator.
// Subjects: the real services/beaconcommitteesubscriber/standard (Subscribe),
// the real services/attestationaggregator/standard (AggregatorsAndSignatures)
// and the real controller's AttestAndScheduleAggregate with fakes.Sched.
package c14

import (
	"context"
	"crypto/sha256"
	"encoding/binary"
	"fmt"
	"io"
	"runtime"
	"sort"
	"strings"
	"sync"
	"testing"
	"time"

	eth2client "github.com/attestantio/go-eth2-client"
	"github.com/attestantio/go-eth2-client/api"
	apiv1 "github.com/attestantio/go-eth2-client/api/v1"
	"github.com/attestantio/go-eth2-client/spec/phase0"
	"github.com/attestantio/vouch/mock"
	mockaccountmanager "github.com/attestantio/vouch/services/accountmanager/mock"
	"github.com/attestantio/vouch/services/attestationaggregator"
	standardaggregator "github.com/attestantio/vouch/services/attestationaggregator/standard"
	"github.com/attestantio/vouch/services/attester"
	mockbeaconblockproposer "github.com/attestantio/vouch/services/beaconblockproposer/mock"
	"github.com/attestantio/vouch/services/beaconcommitteesubscriber"
	standardsubscriber "github.com/attestantio/vouch/services/beaconcommitteesubscriber/standard"
	"github.com/attestantio/vouch/services/cache"
	mockcache "github.com/attestantio/vouch/services/cache/mock"
	standardcontroller "github.com/attestantio/vouch/services/controller/standard"
	nullmetrics "github.com/attestantio/vouch/services/metrics/null"
	mockproposalpreparer "github.com/attestantio/vouch/services/proposalpreparer/mock"
	mocksigner "github.com/attestantio/vouch/services/signer/mock"
	"github.com/google/uuid"
	"github.com/prysmaticlabs/go-bitfield"
	"github.com/rs/zerolog"
	zerologger "github.com/rs/zerolog/log"
	e2types "github.com/wealdtech/go-eth2-types/v2"
	e2wtypes "github.com/wealdtech/go-eth2-wallet-types/v2"
	"pgregory.net/rapid"

	"verifharness/internal/ev"
	"verifharness/internal/fakes"
)

// ---------------------------------------------------------------------------
// Case

// CommitteeSpec is one committee of a slot in which we have validators.
type CommitteeSpec struct {
	Slot  uint64 `json:"slot"`
	Index uint64 `json:"index"`
	Size  uint64 `json:"size"`
}

// DutySpec is the attester duty of one of our validators (one per epoch).
type DutySpec struct {
	V   uint64 `json:"v"`
	C   int    `json:"c"` // index into Case.Committees
	Pos uint64 `json:"pos"`
	// NoAtt: the attester returns no attestation for this validator (it failed
	// to sign); Order: position of its attestation in the returned list.
	NoAtt bool   `json:"no_att,omitempty"`
	Order uint32 `json:"order"`
	// SigFail: the slot-selection signer fails every (batch) request that contains
	// this validator - i.e. the request for the slot of its duty.
	SigFail bool `json:"sig_fail,omitempty"`
}

// Case is the world: duties of epoch Epoch and Epoch+1, the current slot, the
// aggregator target and the seed of the slot signatures.
type Case struct {
	SlotsPerEpoch    uint64          `json:"slots_per_epoch"`
	Epoch            uint64          `json:"epoch"`
	CurrentInEpoch   uint64          `json:"current_in_epoch"` // current slot = Epoch*SlotsPerEpoch + CurrentInEpoch
	Target           uint64          `json:"target_aggregators_per_committee"`
	CommitteesAtSlot uint64          `json:"committees_at_slot"`
	SigSeed          uint64          `json:"sig_seed"`
	Committees       []CommitteeSpec `json:"committees"`
	Duties           []DutySpec      `json:"duties"` // in the order the beacon node returns them
	// Reorg: after the controller has started (and subscribed for both epochs) the
	// chain re-organises: head events report changed duty-dependent roots and the
	// beacon node answers with a new duty table from then on.
	Reorg *ReorgSpec `json:"reorg,omitempty"`
	// Refail: after that (or directly after start-up) a re-subscription attempt that fails.
	Refail *RefailSpec `json:"refail,omitempty"`
	// Concurrency: the subscriber's process concurrency (1, 2 or 4; 0 = 4).
	Concurrency int64 `json:"concurrency,omitempty"`
	// SlowSubmit: the beacon node does not answer the subscription requests made at the
	// controller's start-up until the attestation jobs of both epochs have run (only in
	// histories without duty change / failing re-subscription).
	SlowSubmit bool `json:"slow_submit,omitempty"`
	// LogLevel of subscriber, aggregator and controller: "" (disabled) | "info" | "debug" | "trace".
	LogLevel string `json:"log_level,omitempty"`
}

func (c *Case) concurrency() int64 {
	if c.Concurrency <= 0 {
		return 4
	}
	return c.Concurrency
}

// ReorgSpec is the history step "duties of an epoch change".
type ReorgSpec struct {
	Advance  uint64 `json:"advance"`               // slots that pass (inside epoch Epoch) before the reorg is seen
	Previous bool   `json:"previous_root_changed"` // previous duty dependent root changed: duties of Epoch change
	Current  bool   `json:"current_root_changed"`  // current duty dependent root changed: duties of Epoch+1 change
	// The duty table after the reorg (both epochs; epochs whose root did not change are as before).
	Committees []CommitteeSpec `json:"committees"`
	Duties     []DutySpec      `json:"duties"`
	// SubscribeFails: the re-subscription triggered by this reorg fails (the beacon node
	// does not answer the subscriber's attester duties request).
	SubscribeFails bool `json:"subscribe_fails,omitempty"`
}

// RefailSpec is the history step "a later re-subscription attempt fails": a further
// head event with changed duty-dependent roots while the duty table stays as it is and
// the subscriber's attester duties request is refused.
type RefailSpec struct {
	Previous bool `json:"previous_root_changed"`
	Current  bool `json:"current_root_changed"`
}

// flag is a switch shared between the harness and a double.
type flag struct {
	mu sync.Mutex
	on bool
}

func (f *flag) set(v bool) {
	f.mu.Lock()
	f.on = v
	f.mu.Unlock()
}

func (f *flag) get() bool {
	if f == nil {
		return false
	}
	f.mu.Lock()
	defer f.mu.Unlock()
	return f.on
}

// table is the duty table the beacon node double currently serves.
type table struct {
	mu         sync.Mutex
	committees []CommitteeSpec
	duties     []DutySpec
}

func (t *table) get() ([]CommitteeSpec, []DutySpec) {
	t.mu.Lock()
	defer t.mu.Unlock()
	return t.committees, t.duties
}

func (t *table) set(cs []CommitteeSpec, ds []DutySpec) {
	t.mu.Lock()
	t.committees, t.duties = cs, ds
	t.mu.Unlock()
}

func (c *Case) currentSlot() uint64 { return c.Epoch*c.SlotsPerEpoch + c.CurrentInEpoch }

// slotSig is the slot-selection signature of validator v for slot: a pure
// function of the case, so that the oracle knows it without asking the code.
func slotSig(seed, v, slot uint64) phase0.BLSSignature {
	var in [25]byte
	binary.LittleEndian.PutUint64(in[0:8], seed)
	binary.LittleEndian.PutUint64(in[8:16], v)
	binary.LittleEndian.PutUint64(in[16:24], slot)
	var s phase0.BLSSignature
	for i := 0; i < 3; i++ {
		in[24] = byte(i)
		h := sha256.Sum256(in[:])
		copy(s[i*32:], h[:])
	}
	return s
}

// refIsAggregator is is_aggregator of the consensus specification:
// bytes_to_uint64(hash(slot_signature)[0:8]) % max(1, len(committee) // TARGET_AGGREGATORS_PER_COMMITTEE) == 0.
func refIsAggregator(sig phase0.BLSSignature, committeeSize, target uint64) bool {
	modulo := committeeSize / target
	if modulo < 1 {
		modulo = 1
	}
	h := sha256.Sum256(sig[:])
	return binary.LittleEndian.Uint64(h[:8])%modulo == 0
}

// ---------------------------------------------------------------------------
// Doubles

type pubKey struct{ b [48]byte }

func (p *pubKey) Marshal() []byte               { return p.b[:] }
func (p *pubKey) Aggregate(_ e2types.PublicKey) {}
func (p *pubKey) Copy() e2types.PublicKey       { c := *p; return &c }

type account struct {
	v  uint64
	id uuid.UUID
	pk *pubKey
}

func newAccount(v uint64) *account {
	a := &account{v: v, pk: &pubKey{}}
	a.pk.b[0] = 0xac
	binary.LittleEndian.PutUint64(a.pk.b[1:9], v)
	copy(a.id[:], a.pk.b[:16])
	return a
}

func (a *account) ID() uuid.UUID                { return a.id }
func (a *account) Name() string                 { return fmt.Sprintf("validator-%d", a.v) }
func (a *account) PublicKey() e2types.PublicKey { return a.pk }

func accountValidator(a e2wtypes.Account) (uint64, bool) {
	if a == nil {
		return 0, false
	}
	b := a.PublicKey().Marshal()
	if len(b) != 48 || b[0] != 0xac {
		return 0, false
	}
	return binary.LittleEndian.Uint64(b[1:9]), true
}

// accountsProvider answers per epoch: a validator is active (and gets duties)
// in the epochs in which the duty table gives it a duty - validators that have a
// duty only in the later epoch activate at its start, those with a duty only in
// the earlier one have exited by then.
type accountsProvider struct {
	epoch     uint64 // first of the two epochs
	cur, next []uint64
}

func (p *accountsProvider) forEpoch(epoch uint64) map[phase0.ValidatorIndex]e2wtypes.Account {
	vs := p.cur
	if epoch > p.epoch {
		vs = p.next
	}
	res := map[phase0.ValidatorIndex]e2wtypes.Account{}
	for _, v := range vs {
		res[phase0.ValidatorIndex(v)] = newAccount(v)
	}
	return res
}

func (p *accountsProvider) ValidatingAccountsForEpoch(_ context.Context, epoch phase0.Epoch) (map[phase0.ValidatorIndex]e2wtypes.Account, error) {
	return p.forEpoch(uint64(epoch)), nil
}

func (p *accountsProvider) ValidatingAccountsForEpochByIndex(_ context.Context, epoch phase0.Epoch, indices []phase0.ValidatorIndex) (map[phase0.ValidatorIndex]e2wtypes.Account, error) {
	all := p.forEpoch(uint64(epoch))
	res := map[phase0.ValidatorIndex]e2wtypes.Account{}
	for _, i := range indices {
		if a, ok := all[i]; ok {
			res[i] = a
		}
	}
	return res, nil
}

func (p *accountsProvider) SyncCommitteeAccountsForEpoch(context.Context, phase0.Epoch) (map[phase0.ValidatorIndex]e2wtypes.Account, error) {
	return map[phase0.ValidatorIndex]e2wtypes.Account{}, nil
}

func (p *accountsProvider) SyncCommitteeAccountsForEpochByIndex(context.Context, phase0.Epoch, []phase0.ValidatorIndex) (map[phase0.ValidatorIndex]e2wtypes.Account, error) {
	return map[phase0.ValidatorIndex]e2wtypes.Account{}, nil
}

// slotSigner is the slot-selection signer double.
type slotSigner struct {
	seed uint64
	t    *table
}

func (s *slotSigner) SignSlotSelections(_ context.Context, accounts []e2wtypes.Account, slot phase0.Slot) ([]phase0.BLSSignature, error) {
	res := make([]phase0.BLSSignature, len(accounts))
	failing := map[uint64]bool{}
	committees, duties := s.t.get()
	for _, d := range duties {
		if d.SigFail && committees[d.C].Slot == uint64(slot) {
			failing[d.V] = true
		}
	}
	for i, a := range accounts {
		v, ok := accountValidator(a)
		if !ok {
			return nil, fmt.Errorf("slot signer double: unknown account at position %d", i)
		}
		if failing[v] {
			return nil, fmt.Errorf("scripted slot selection signing failure (validator %d, slot %d)", v, slot)
		}
		res[i] = slotSig(s.seed, v, uint64(slot))
	}
	return res, nil
}

// dutiesProvider is the beacon node's attester duties endpoint.
type dutiesProvider struct {
	c    *Case
	t    *table
	fail *flag // while on, the request is refused
}

func (p *dutiesProvider) AttesterDuties(_ context.Context, opts *api.AttesterDutiesOpts) (*api.Response[[]*apiv1.AttesterDuty], error) {
	want := map[phase0.ValidatorIndex]bool{}
	for _, i := range opts.Indices {
		want[i] = true
	}
	res := []*apiv1.AttesterDuty{}
	if p.fail.get() {
		return nil, fmt.Errorf("scripted attester duties failure")
	}
	committees, duties := p.t.get()
	for _, d := range duties {
		cm := committees[d.C]
		if cm.Slot/p.c.SlotsPerEpoch != uint64(opts.Epoch) || !want[phase0.ValidatorIndex(d.V)] {
			continue
		}
		ad := &apiv1.AttesterDuty{
			Slot:                    phase0.Slot(cm.Slot),
			ValidatorIndex:          phase0.ValidatorIndex(d.V),
			CommitteeIndex:          phase0.CommitteeIndex(cm.Index),
			CommitteeLength:         cm.Size,
			CommitteesAtSlot:        p.c.CommitteesAtSlot,
			ValidatorCommitteeIndex: d.Pos,
		}
		copy(ad.PubKey[:], newAccount(d.V).pk.b[:])
		res = append(res, ad)
	}
	return &api.Response[[]*apiv1.AttesterDuty]{Data: res, Metadata: map[string]any{}}, nil
}

// eventsProvider captures the event handlers the controller registers.
type eventsProvider struct {
	mu       sync.Mutex
	handlers map[string]eth2client.EventHandlerFunc
}

func (p *eventsProvider) Events(_ context.Context, topics []string, handler eth2client.EventHandlerFunc) error {
	p.mu.Lock()
	defer p.mu.Unlock()
	for _, t := range topics {
		p.handlers[t] = handler
	}
	return nil
}

// subsSubmitter records beacon committee subscriptions.
type subsSubmitter struct {
	mu     sync.Mutex
	calls  [][]*apiv1.BeaconCommitteeSubscription
	phases []int // phase in force when the call was made
	phase  int   // 0 = start-up, 1 = after the reorg
	// hold: the beacon node receives the request but does not answer until released
	hold    bool
	release chan struct{}
	held    int
}

func (s *subsSubmitter) startHolding() {
	s.mu.Lock()
	s.hold, s.release = true, make(chan struct{})
	s.mu.Unlock()
}

func (s *subsSubmitter) releaseAll() {
	s.mu.Lock()
	if s.hold {
		s.hold = false
		close(s.release)
	}
	s.mu.Unlock()
}

func (s *subsSubmitter) heldCount() int {
	s.mu.Lock()
	defer s.mu.Unlock()
	return s.held
}

func (s *subsSubmitter) setPhase(p int) {
	s.mu.Lock()
	s.phase = p
	s.mu.Unlock()
}

// inPhase returns the subscriptions submitted while the given phase was in force.
func (s *subsSubmitter) inPhase(p int) []*apiv1.BeaconCommitteeSubscription {
	s.mu.Lock()
	defer s.mu.Unlock()
	var res []*apiv1.BeaconCommitteeSubscription
	for i, c := range s.calls {
		if s.phases[i] == p {
			res = append(res, c...)
		}
	}
	return res
}

func (s *subsSubmitter) SubmitBeaconCommitteeSubscriptions(ctx context.Context, subs []*apiv1.BeaconCommitteeSubscription) error {
	s.mu.Lock()
	cp := make([]*apiv1.BeaconCommitteeSubscription, 0, len(subs))
	for _, x := range subs {
		if x != nil {
			y := *x
			cp = append(cp, &y)
		}
	}
	s.calls = append(s.calls, cp)
	s.phases = append(s.phases, s.phase)
	if !s.hold {
		s.mu.Unlock()
		return nil
	}
	release := s.release
	s.held++
	s.mu.Unlock()
	select {
	case <-release:
	case <-ctx.Done():
	}
	s.mu.Lock()
	s.held--
	s.mu.Unlock()
	return nil
}

func (s *subsSubmitter) all() []*apiv1.BeaconCommitteeSubscription {
	s.mu.Lock()
	defer s.mu.Unlock()
	var res []*apiv1.BeaconCommitteeSubscription
	for _, c := range s.calls {
		res = append(res, c...)
	}
	return res
}

// spyAggregator is the controller's attestation aggregator: the real service
// for the selection rule, recording instead of aggregating.
type spyAggregator struct {
	real attestationaggregator.Service
	mu   sync.Mutex
	got  []attestationaggregator.Duty
}

func (s *spyAggregator) Aggregate(_ context.Context, d *attestationaggregator.Duty) {
	s.mu.Lock()
	defer s.mu.Unlock()
	if d != nil {
		s.got = append(s.got, *d)
	}
}

func (s *spyAggregator) AggregatorsAndSignatures(ctx context.Context, accounts []e2wtypes.Account, slot phase0.Slot, sizes []uint64) ([]phase0.BLSSignature, []bool, error) {
	return s.real.AggregatorsAndSignatures(ctx, accounts, slot, sizes)
}

// attesterD is the controller's attester: it returns one attestation per
// validator of the duty (except those scripted to fail), in scripted order.
type attesterD struct {
	c *Case
	t *table
}

func attData(slot, committee, spe uint64) *phase0.AttestationData {
	var root, src, tgt phase0.Root
	binary.LittleEndian.PutUint64(root[:8], slot)
	root[31] = 1
	src[31] = 2
	tgt[31] = 3
	epoch := slot / spe
	se := epoch
	if se > 0 {
		se--
	}
	return &phase0.AttestationData{
		Slot:            phase0.Slot(slot),
		Index:           phase0.CommitteeIndex(committee),
		BeaconBlockRoot: root,
		Source:          &phase0.Checkpoint{Epoch: phase0.Epoch(se), Root: src},
		Target:          &phase0.Checkpoint{Epoch: phase0.Epoch(epoch), Root: tgt},
	}
}

func (a *attesterD) Attest(_ context.Context, duty *attester.Duty) ([]*phase0.Attestation, error) {
	spec := map[uint64]DutySpec{}
	committees, duties := a.t.get()
	for _, d := range duties {
		if committees[d.C].Slot == uint64(duty.Slot()) {
			spec[d.V] = d
		}
	}
	type item struct {
		order uint32
		v     uint64
		att   *phase0.Attestation
	}
	var items []item
	for i, v := range duty.ValidatorIndices() {
		d, ok := spec[uint64(v)]
		if !ok || d.NoAtt {
			continue
		}
		ci := duty.CommitteeIndices()[i]
		bits := bitfield.NewBitlist(duty.CommitteeSize(ci))
		bits.SetBitAt(duty.ValidatorCommitteeIndices()[i], true)
		att := &phase0.Attestation{AggregationBits: bits, Data: attData(uint64(duty.Slot()), uint64(ci), a.c.SlotsPerEpoch)}
		att.Signature[0] = 0xa7
		binary.LittleEndian.PutUint64(att.Signature[1:9], uint64(v))
		items = append(items, item{d.Order, uint64(v), att})
	}
	sort.Slice(items, func(i, j int) bool {
		if items[i].order != items[j].order {
			return items[i].order < items[j].order
		}
		return items[i].v < items[j].v
	})
	res := make([]*phase0.Attestation, 0, len(items))
	for _, it := range items {
		res = append(res, it.att)
	}
	if len(res) == 0 {
		return nil, fmt.Errorf("no attestations succeeded")
	}
	return res, nil
}

type specProvider struct {
	spe, target uint64
}

func (s specProvider) Spec(context.Context, *api.SpecOpts) (*api.Response[map[string]any], error) {
	return &api.Response[map[string]any]{Data: map[string]any{
		"SLOTS_PER_EPOCH":                  s.spe,
		"SECONDS_PER_SLOT":                 12 * time.Second,
		"TARGET_AGGREGATORS_PER_COMMITTEE": s.target,
		"EPOCHS_PER_SYNC_COMMITTEE_PERIOD": uint64(256),
	}, Metadata: map[string]any{}}, nil
}

// ---------------------------------------------------------------------------
// Logging: vouch's services take their logger from the zerolog global logger;
// it writes to io.Discard in this process, and the level is drawn per case so
// that code inside "if e := log.Trace(); e.Enabled()" guards really executes.

func init() { zerologger.Logger = zerolog.New(io.Discard) }

func levelOf(s string) zerolog.Level {
	switch s {
	case "trace":
		return zerolog.TraceLevel
	case "debug":
		return zerolog.DebugLevel
	case "info":
		return zerolog.InfoLevel
	}
	return zerolog.Disabled
}

// useLogLevel sets zerolog's global level for the case (cases of one process run
// one after the other) and returns the level for WithLogLevel and a restore func.
func useLogLevel(s string) (zerolog.Level, func()) {
	lvl := levelOf(s)
	zerolog.SetGlobalLevel(lvl)
	return lvl, func() { zerolog.SetGlobalLevel(zerolog.Disabled) }
}

func genLogLevel(t *rapid.T) string {
	return rapid.SampledFrom([]string{"", "", "info", "debug", "trace", "trace"}).Draw(t, "logLevel")
}

// ---------------------------------------------------------------------------
// Generator

func genEpochDuties(t *rapid.T, c *Case, epoch uint64, slots []uint64, usedV map[uint64]bool) {
	for _, slot := range slots {
		nC := rapid.IntRange(1, 3).Draw(t, "nCommittees")
		usedIdx := map[uint64]bool{}
		for i := 0; i < nC; i++ {
			idx := rapid.Uint64Range(0, c.CommitteesAtSlot-1).Draw(t, "committeeIndex")
			for usedIdx[idx] {
				idx = (idx + 1) % c.CommitteesAtSlot
			}
			usedIdx[idx] = true
			size := rapid.OneOf(
				rapid.Uint64Range(1, 40),
				rapid.Uint64Range(1, 40),
				rapid.Uint64Range(41, 300),
				rapid.Uint64Range(301, 2048),
			).Draw(t, "committeeSize")
			ci := len(c.Committees)
			c.Committees = append(c.Committees, CommitteeSpec{Slot: slot, Index: idx, Size: size})
			nV := rapid.IntRange(1, 3).Draw(t, "nValidators")
			usedPos := map[uint64]bool{}
			for k := 0; k < nV && uint64(k) < size; k++ {
				v := rapid.Uint64Range(0, 199).Draw(t, "v")
				for usedV[v] {
					v = (v + 1) % 200
				}
				usedV[v] = true
				pos := rapid.Uint64Range(0, size-1).Draw(t, "pos")
				for usedPos[pos] {
					pos = (pos + 1) % size
				}
				usedPos[pos] = true
				c.Duties = append(c.Duties, DutySpec{
					V: v, C: ci, Pos: pos,
					NoAtt: rapid.IntRange(0, 11).Draw(t, "noAtt") == 0,
					Order: uint32(rapid.IntRange(0, 1000).Draw(t, "order")),
				})
			}
		}
	}
	_ = epoch
}

func genCase(t *rapid.T) Case {
	c := Case{
		SlotsPerEpoch:    rapid.SampledFrom([]uint64{4, 8, 32}).Draw(t, "spe"),
		Epoch:            rapid.Uint64Range(0, 40).Draw(t, "epoch"),
		Target:           rapid.SampledFrom([]uint64{1, 2, 4, 16, 16, 16}).Draw(t, "target"),
		CommitteesAtSlot: rapid.SampledFrom([]uint64{4, 16, 64}).Draw(t, "committeesAtSlot"),
		SigSeed:          rapid.Uint64Range(0, 1<<30).Draw(t, "sigSeed"),
	}
	c.CurrentInEpoch = rapid.OneOf(rapid.Uint64Range(0, c.SlotsPerEpoch-1), rapid.SampledFrom([]uint64{0, 1, c.SlotsPerEpoch - 1})).Draw(t, "currentInEpoch")
	cur := c.currentSlot()
	first := c.Epoch * c.SlotsPerEpoch
	last := first + c.SlotsPerEpoch - 1
	// slots of this epoch with duties: before / at / after the current slot
	pick := map[uint64]bool{}
	n := rapid.IntRange(1, 5).Draw(t, "nSlots")
	for i := 0; i < n; i++ {
		var s uint64
		switch rapid.SampledFrom([]string{"before", "at", "after", "after", "next", "any"}).Draw(t, "where") {
		case "before":
			if cur == first {
				s = cur
			} else {
				s = rapid.Uint64Range(first, cur-1).Draw(t, "slotBefore")
			}
		case "at":
			s = cur
		case "next":
			s = cur + 1
			if s > last {
				s = last
			}
		case "after":
			if cur == last {
				s = cur
			} else {
				s = rapid.Uint64Range(cur+1, last).Draw(t, "slotAfter")
			}
		default:
			s = rapid.Uint64Range(first, last).Draw(t, "slotAny")
		}
		pick[s] = true
	}
	var slots []uint64
	for s := range pick {
		slots = append(slots, s)
	}
	sort.Slice(slots, func(i, j int) bool { return slots[i] < slots[j] })
	genEpochDuties(t, &c, c.Epoch, slots, map[uint64]bool{})
	// next epoch (all in the future): 0-2 slots
	var nslots []uint64
	for i, n := 0, rapid.IntRange(0, 2).Draw(t, "nSlotsNext"); i < n; i++ {
		s := last + 1 + rapid.Uint64Range(0, c.SlotsPerEpoch-1).Draw(t, "slotNext")
		dup := false
		for _, x := range nslots {
			dup = dup || x == s
		}
		if !dup {
			nslots = append(nslots, s)
		}
	}
	sort.Slice(nslots, func(i, j int) bool { return nslots[i] < nslots[j] })
	genEpochDuties(t, &c, c.Epoch+1, nslots, map[uint64]bool{})
	// the beacon node returns duties in the order of the request, which is arbitrary
	perm := rapid.Permutation(c.Duties).Draw(t, "dutyOrder")
	c.Duties = perm
	c.Concurrency = rapid.SampledFrom([]int64{1, 2, 3, 4}).Draw(t, "concurrency")
	if mode := rapid.IntRange(0, 9).Draw(t, "sigFailMode"); mode < 4 {
		// the slot-selection signer refuses some requests: a few (mode 0-1) or about half of the duties
		for i := range c.Duties {
			p := 8
			if mode >= 2 {
				p = 2
			}
			c.Duties[i].SigFail = rapid.IntRange(0, p-1).Draw(t, "sigFail") == 0
		}
	}
	if c.Epoch >= 1 && rapid.IntRange(0, 4).Draw(t, "reorg") < 2 {
		c.Reorg = genReorg(t, &c)
		c.Reorg.SubscribeFails = rapid.IntRange(0, 3).Draw(t, "reorgSubscribeFails") == 0
	}
	if c.Epoch >= 1 && rapid.IntRange(0, 3).Draw(t, "refail") == 0 {
		c.Refail = &RefailSpec{}
		switch rapid.SampledFrom([]string{"previous", "previous", "current", "both"}).Draw(t, "refailRoots") {
		case "previous":
			c.Refail.Previous = true
		case "current":
			c.Refail.Current = true
		default:
			c.Refail.Previous, c.Refail.Current = true, true
		}
	}
	if c.Reorg == nil && c.Refail == nil {
		c.SlowSubmit = rapid.IntRange(0, 2).Draw(t, "slowSubmit") == 0
	}
	c.LogLevel = genLogLevel(t)
	return c
}

// genReorg draws the duty table after a reorg: in the epochs whose dependent root
// changed about half of the validators move to another slot/committee (joining an
// existing pair or opening a new one), the others keep their duty.
func genReorg(t *rapid.T, c *Case) *ReorgSpec {
	r := &ReorgSpec{}
	room := c.SlotsPerEpoch - 1 - c.CurrentInEpoch
	if room > 2 {
		room = 2
	}
	r.Advance = rapid.Uint64Range(0, room).Draw(t, "reorgAdvance")
	switch rapid.SampledFrom([]string{"previous", "previous", "current", "both"}).Draw(t, "reorgRoots") {
	case "previous":
		r.Previous = true
	case "current":
		r.Current = true
	default:
		r.Previous, r.Current = true, true
	}
	cur := c.currentSlot() + r.Advance
	index := map[pairKey]int{}
	usedPos := map[pairKey]map[uint64]bool{}
	put := func(cm CommitteeSpec, pos uint64, d DutySpec) {
		k := pairKey{cm.Slot, cm.Index}
		ci, ok := index[k]
		if !ok {
			ci = len(r.Committees)
			r.Committees = append(r.Committees, cm)
			index[k] = ci
			usedPos[k] = map[uint64]bool{}
		}
		usedPos[k][pos] = true
		d.C, d.Pos = ci, pos
		r.Duties = append(r.Duties, d)
	}
	var moved []DutySpec
	for _, d := range c.Duties {
		cm := c.Committees[d.C]
		e := cm.Slot / c.SlotsPerEpoch
		changed := (e == c.Epoch && r.Previous) || (e == c.Epoch+1 && r.Current)
		if changed && rapid.Bool().Draw(t, "moves") {
			moved = append(moved, d)
			continue
		}
		put(cm, d.Pos, d)
	}
	for _, d := range moved {
		e := c.Committees[d.C].Slot / c.SlotsPerEpoch
		first := e * c.SlotsPerEpoch
		last := first + c.SlotsPerEpoch - 1
		slot := rapid.Uint64Range(first, last).Draw(t, "movedSlotAny")
		if e == c.Epoch && cur < last && rapid.IntRange(0, 3).Draw(t, "movedToFuture") != 0 {
			slot = rapid.Uint64Range(cur+1, last).Draw(t, "movedSlotFuture")
		}
		idx := rapid.Uint64Range(0, c.CommitteesAtSlot-1).Draw(t, "movedCommittee")
		var cm CommitteeSpec
		for tries := uint64(0); ; tries++ {
			k := pairKey{slot, idx}
			ci, ok := index[k]
			if !ok {
				cm = CommitteeSpec{Slot: slot, Index: idx, Size: rapid.OneOf(rapid.Uint64Range(1, 40), rapid.Uint64Range(41, 2048)).Draw(t, "movedSize")}
				break
			}
			if uint64(len(usedPos[k])) < r.Committees[ci].Size {
				cm = r.Committees[ci]
				break
			}
			idx = (idx + 1) % c.CommitteesAtSlot
			if tries > c.CommitteesAtSlot {
				slot = first + (slot-first+1)%c.SlotsPerEpoch
			}
		}
		k := pairKey{cm.Slot, cm.Index}
		pos := rapid.Uint64Range(0, cm.Size-1).Draw(t, "movedPos")
		for usedPos[k][pos] {
			pos = (pos + 1) % cm.Size
		}
		put(cm, pos, d)
	}
	return r
}

// ---------------------------------------------------------------------------
// Run + judge

type judgement struct{ sig, detail string }

type pairKey struct{ slot, committee uint64 }

type pairInfo struct {
	size     uint64
	vals     []uint64 // our validators in the pair
	selected []uint64 // those selected as aggregator by the reference rule
	hasAtt   bool     // the attester returns at least one attestation for the pair
	excused  bool     // the slot-selection signing of the pair's slot fails: nothing is demanded for it
}

func buildPairs(c *Case, committees []CommitteeSpec, duties []DutySpec) map[pairKey]*pairInfo {
	pairs := map[pairKey]*pairInfo{}
	for _, d := range duties {
		cm := committees[d.C]
		k := pairKey{cm.Slot, cm.Index}
		p := pairs[k]
		if p == nil {
			p = &pairInfo{size: cm.Size}
			pairs[k] = p
		}
		p.vals = append(p.vals, d.V)
		if refIsAggregator(slotSig(c.SigSeed, d.V, cm.Slot), cm.Size, c.Target) {
			p.selected = append(p.selected, d.V)
		}
		if !d.NoAtt {
			p.hasAtt = true
		}
	}
	failSlot := map[uint64]bool{}
	for _, d := range duties {
		if d.SigFail {
			failSlot[committees[d.C].Slot] = true
		}
	}
	for k, p := range pairs {
		p.excused = failSlot[k.slot]
	}
	return pairs
}

func contains(l []uint64, v uint64) bool {
	for _, x := range l {
		if x == v {
			return true
		}
	}
	return false
}

// quiesce waits until the goroutines started by the code under test are gone.
//
// The authority is a dump of all goroutines (runtime.Stack stops the world, so it is a
// consistent snapshot): no goroutine other than the calling one may have a frame of vouch
// or of this package's doubles - except goroutines parked inside the subscription
// submitter double while it is told to hold its answers.  A goroutine that has been
// created but has not run yet shows its entry function, so nothing can slip through, and
// nothing in these code paths is started by a timer.  runtime.NumGoroutine is only used
// as a cheap hint for when to look: the runtime documents its result as possibly
// inconsistent while goroutines are created and freed on other CPUs, and on a heavily
// loaded machine it was observed too low for long enough to end a wait early (start-up
// subscription still running when the next history step switched the fault on).
//
// quiesceStuck is set when the wait gave up because the goroutines waited for are
// provably parked inside the subscriber (same set on four consecutive dumps).
var quiesceStuck bool

var dumpBuf = make([]byte, 4<<20)

// busyGoroutines returns how many goroutines other than the caller are inside vouch or
// this package's code (not counting those held by the submitter double).
func busyGoroutines() int {
	n := runtime.Stack(dumpBuf, true)
	blocks := strings.Split(string(dumpBuf[:n]), "\n\n")
	busy := 0
	for i, g := range blocks {
		if i == 0 {
			continue // the calling goroutine comes first
		}
		if !strings.Contains(g, "github.com/attestantio/vouch/") && !strings.Contains(g, "verifharness/c14.") {
			continue
		}
		if strings.Contains(g, "testing.(*M).Run(") || strings.Contains(g, "testing.(*T).Run(") {
			continue // the test binary's main goroutine / a parent test waiting for this one
		}
		if strings.Contains(g, "subsSubmitter).SubmitBeaconCommitteeSubscriptions") && strings.Contains(g, "[select") {
			continue // held by the beacon node double until released
		}
		busy++
	}
	return busy
}

func quiesce(baseline int, parked ...func() int) bool {
	quiesceStuck = false
	var lastSet string
	same := 0
	deadline := time.Now().Add(30 * time.Second)
	for spins := 0; ; spins++ {
		extra := 0
		for _, f := range parked {
			extra += f()
		}
		// hint: look when the count says so, and every so often regardless
		if runtime.NumGoroutine() <= baseline+extra || spins%64 == 63 {
			if busyGoroutines() == 0 {
				return true
			}
		}
		runtime.Gosched()
		if spins > 200 {
			if time.Now().After(deadline) {
				return false
			}
			time.Sleep(50 * time.Microsecond)
			if spins > 2000 && spins%100 == 0 {
				if set, stuck := subscriberParked(); stuck && set == lastSet {
					same++
					if same >= 3 {
						quiesceStuck = true
						return false
					}
				} else {
					lastSet, same = "", 0
					if stuck {
						lastSet = set
					}
				}
			}
		}
	}
}

var (
	baselineMu   sync.Mutex
	procBaseline = -1
)

// goroutineBaseline returns the number of goroutines that exist when no case
// is running: the minimum ever seen at the start of a case, so that a straggler
// of an earlier case can never inflate it.
func goroutineBaseline() int {
	baselineMu.Lock()
	defer baselineMu.Unlock()
	n := runtime.NumGoroutine()
	if procBaseline < 0 || n < procBaseline {
		procBaseline = n
	}
	return procBaseline
}

func validTable(c *Case, committees []CommitteeSpec, duties []DutySpec) error {
	seen := map[[2]uint64]bool{}
	usedPos := map[[3]uint64]bool{}
	sizeOf := map[pairKey]uint64{}
	for _, d := range duties {
		if d.C < 0 || d.C >= len(committees) {
			return fmt.Errorf("malformed committee reference")
		}
		cm := committees[d.C]
		e := cm.Slot / c.SlotsPerEpoch
		if e != c.Epoch && e != c.Epoch+1 {
			return fmt.Errorf("duty outside the two epochs")
		}
		if seen[[2]uint64{d.V, e}] {
			return fmt.Errorf("validator %d has two duties in epoch %d", d.V, e)
		}
		seen[[2]uint64{d.V, e}] = true
		if d.Pos >= cm.Size || cm.Size > 2048 {
			return fmt.Errorf("position outside committee or committee above 2048")
		}
		k := pairKey{cm.Slot, cm.Index}
		if sz, ok := sizeOf[k]; ok && sz != cm.Size {
			return fmt.Errorf("committee %d of slot %d has two sizes", cm.Index, cm.Slot)
		}
		sizeOf[k] = cm.Size
		if usedPos[[3]uint64{cm.Slot, cm.Index, d.Pos}] {
			return fmt.Errorf("position %d of committee %d of slot %d used twice", d.Pos, cm.Index, cm.Slot)
		}
		usedPos[[3]uint64{cm.Slot, cm.Index, d.Pos}] = true
	}
	return nil
}

func validCase(c *Case) error {
	if c.SlotsPerEpoch == 0 || c.Target == 0 || c.CommitteesAtSlot == 0 || c.CurrentInEpoch >= c.SlotsPerEpoch {
		return fmt.Errorf("malformed world parameters")
	}
	if err := validTable(c, c.Committees, c.Duties); err != nil {
		return err
	}
	if c.SlowSubmit && (c.Reorg != nil || c.Refail != nil) {
		return fmt.Errorf("slow_submit is only defined for histories without duty change / failing re-subscription")
	}
	if c.Concurrency < 0 || c.Concurrency > 64 {
		return fmt.Errorf("malformed concurrency")
	}
	if f := c.Refail; f != nil && (c.Epoch == 0 || !(f.Previous || f.Current)) {
		return fmt.Errorf("malformed failing re-subscription step")
	}
	if r := c.Reorg; r != nil {
		if c.Epoch == 0 || c.CurrentInEpoch+r.Advance >= c.SlotsPerEpoch || !(r.Previous || r.Current) {
			return fmt.Errorf("malformed reorg step")
		}
		if err := validTable(c, r.Committees, r.Duties); err != nil {
			return fmt.Errorf("table after the reorg: %w", err)
		}
		// same validators per epoch; unchanged epochs keep their duties
		type row struct{ v, slot, index, size, pos uint64 }
		rows := func(cs []CommitteeSpec, ds []DutySpec, full bool) map[row]bool {
			m := map[row]bool{}
			for _, d := range ds {
				cm := cs[d.C]
				if full {
					m[row{d.V, cm.Slot, cm.Index, cm.Size, d.Pos}] = true
				} else {
					m[row{d.V, cm.Slot / c.SlotsPerEpoch, 0, 0, 0}] = true
				}
			}
			return m
		}
		a, b := rows(c.Committees, c.Duties, false), rows(r.Committees, r.Duties, false)
		if len(a) != len(b) {
			return fmt.Errorf("the reorg changes the set of validators of an epoch")
		}
		for k := range a {
			if !b[k] {
				return fmt.Errorf("the reorg changes the set of validators of an epoch")
			}
		}
		fa, fb := rows(c.Committees, c.Duties, true), rows(r.Committees, r.Duties, true)
		for k := range fa {
			e := k.slot / c.SlotsPerEpoch
			unchanged := (e == c.Epoch && !r.Previous) || (e == c.Epoch+1 && !r.Current)
			if unchanged && !fb[k] {
				return fmt.Errorf("duties of an epoch whose dependent root did not change differ after the reorg")
			}
		}
	}
	return nil
}

type stats struct {
	bothSides, pastOnly, futureOnly bool
	multiAggSlot                    bool
	aggPairs, nonAggPairs           int
	sharedPair                      bool
	slotsAttested                   int
	reorg, reorgNewFuturePair       bool
	reorgNewAggregatorPair          bool
	refail, failedRefreshWithChange bool
	excusedPairs                    int
	activationAtNextEpoch           bool
}

type env struct {
	c       *Case
	tab     *table
	clock   *fakes.VClock
	vs      []uint64
	acc     *accountsProvider
	realAgg *standardaggregator.Service
}

func newEnv(ctx context.Context, c *Case) (*env, error) {
	e := &env{c: c, tab: &table{committees: c.Committees, duties: c.Duties}}
	e.clock = fakes.NewVClock(time.Unix(1600000000, 0), 12*time.Second, c.SlotsPerEpoch)
	e.clock.SetSlot(c.currentSlot(), 2*time.Second)
	seen := map[uint64]bool{}
	e.acc = &accountsProvider{epoch: c.Epoch}
	for _, d := range c.Duties {
		if !seen[d.V] {
			seen[d.V] = true
			e.vs = append(e.vs, d.V)
		}
		if c.Committees[d.C].Slot/c.SlotsPerEpoch == c.Epoch {
			e.acc.cur = append(e.acc.cur, d.V)
		} else {
			e.acc.next = append(e.acc.next, d.V)
		}
	}
	sort.Slice(e.vs, func(i, j int) bool { return e.vs[i] < e.vs[j] })
	sort.Slice(e.acc.cur, func(i, j int) bool { return e.acc.cur[i] < e.acc.cur[j] })
	sort.Slice(e.acc.next, func(i, j int) bool { return e.acc.next[i] < e.acc.next[j] })
	agg, err := standardaggregator.New(ctx,
		standardaggregator.WithLogLevel(levelOf(c.LogLevel)),
		standardaggregator.WithMonitor(nullmetrics.New()),
		standardaggregator.WithSpecProvider(specProvider{c.SlotsPerEpoch, c.Target}),
		standardaggregator.WithChainTime(e.clock),
		standardaggregator.WithValidatingAccountsProvider(e.acc),
		standardaggregator.WithAggregateAttestationProvider(mock.NewAggregateAttestationProvider()),
		standardaggregator.WithAggregateAttestationsSubmitter(mock.NewAggregateAttestationsSubmitter()),
		standardaggregator.WithSlotSelectionSigner(&slotSigner{seed: c.SigSeed, t: e.tab}),
		standardaggregator.WithAggregateAndProofSigner(mocksigner.New()),
	)
	if err != nil {
		return nil, fmt.Errorf("cannot construct attestation aggregator: %w", err)
	}
	e.realAgg = agg
	return e, nil
}

func (e *env) newSubscriber(ctx context.Context, sub *subsSubmitter, fail *flag) (*standardsubscriber.Service, error) {
	return standardsubscriber.New(ctx,
		standardsubscriber.WithLogLevel(levelOf(e.c.LogLevel)),
		standardsubscriber.WithMonitor(nullmetrics.New()),
		standardsubscriber.WithProcessConcurrency(e.c.concurrency()),
		standardsubscriber.WithChainTimeService(e.clock),
		standardsubscriber.WithAttesterDutiesProvider(&dutiesProvider{e.c, e.tab, fail}),
		standardsubscriber.WithAttestationAggregator(e.realAgg),
		standardsubscriber.WithBeaconCommitteeSubmitter(sub),
	)
}

// watchedSubscribe calls Subscribe with the accounts of the epoch and waits for it
// to return.  returned=false means: it has not returned and cannot any more - every
// goroutine inside the subscriber is parked, the unfinished workers in the
// subscriber's semaphore, the caller in the wait group (confirmed on three
// consecutive goroutine dumps showing the same set).  Time only decides when to look.
func (e *env) watchedSubscribe(ctx context.Context, s *standardsubscriber.Service, epoch uint64) (map[phase0.Slot]map[phase0.CommitteeIndex]*beaconcommitteesubscriber.Subscription, error, bool) {
	type result struct {
		info map[phase0.Slot]map[phase0.CommitteeIndex]*beaconcommitteesubscriber.Subscription
		err  error
	}
	ch := make(chan result, 1)
	go func() {
		info, err := s.Subscribe(ctx, phase0.Epoch(epoch), e.acc.forEpoch(epoch))
		ch <- result{info, err}
	}()
	var last string
	same := 0
	deadline := time.Now().Add(30 * time.Second)
	for spins := 0; ; spins++ {
		select {
		case r := <-ch:
			return r.info, r.err, true
		default:
		}
		runtime.Gosched()
		if spins < 2000 {
			continue
		}
		time.Sleep(200 * time.Microsecond)
		if spins%20 != 0 {
			continue
		}
		if sig, stuck := subscriberParked(); stuck && sig == last {
			same++
			if same >= 3 {
				return nil, nil, false
			}
		} else {
			last, same = sig, 0
			if !stuck {
				last = ""
			}
		}
		if time.Now().After(deadline) {
			// neither finished nor structurally confirmed as parked: a harness problem
			return nil, errWatchdog, true
		}
	}
}

var errWatchdog = fmt.Errorf("harness watchdog: Subscribe neither returned nor is provably parked after 30 s")

// subscriberParked inspects a dump of all goroutines: stuck is true if at least one
// goroutine is inside the subscriber's calculateSubscriptionInfoForDuty waiting in
// semaphore.Acquire and EVERY goroutine that is inside the subscriber package is
// either such a waiter or the caller waiting in the wait group.  The returned string
// identifies the set of those goroutines.
func subscriberParked() (string, bool) {
	buf := make([]byte, 1<<20)
	n := runtime.Stack(buf, true)
	waiters := 0
	var ids []string
	for _, g := range strings.Split(string(buf[:n]), "\n\n") {
		if !strings.Contains(g, "beaconcommitteesubscriber/standard.") {
			continue
		}
		header := g
		if i := strings.Index(g, "\n"); i >= 0 {
			header = g[:i]
		}
		switch {
		case strings.Contains(g, "semaphore.(*Weighted).Acquire") && strings.Contains(g, "calculateSubscriptionInfoForDuty") &&
			(strings.Contains(header, "[select") || strings.Contains(header, "[chan receive")):
			// an ordinary waiter sits in a select; a request for more permits than the semaphore
			// has waits for the context to end
			waiters++
		case strings.Contains(g, "sync.(*WaitGroup).Wait") && strings.Contains(g, "calculateSubscriptionInfo("):
		default:
			return "", false // somebody inside the subscriber can still make progress
		}
		ids = append(ids, header[:strings.Index(header, "[")])
	}
	sort.Strings(ids)
	return strings.Join(ids, ","), waiters > 0
}

// phase 0: the selection rule itself, called on this goroutine so that a
// panic (division by zero) can be reported.
func (e *env) judgeSelection(ctx context.Context) (js []judgement) {
	c := e.c
	bySlot := map[uint64][]DutySpec{}
	var slots []uint64
	for _, d := range c.Duties {
		s := c.Committees[d.C].Slot
		if _, ok := bySlot[s]; !ok {
			slots = append(slots, s)
		}
		bySlot[s] = append(bySlot[s], d)
	}
	sort.Slice(slots, func(i, j int) bool { return slots[i] < slots[j] })
	defer func() {
		if p := recover(); p != nil {
			js = append(js, judgement{"panic:AggregatorsAndSignatures", fmt.Sprintf("AggregatorsAndSignatures panicked: %v", p)})
		}
	}()
	for _, s := range slots {
		var accounts []e2wtypes.Account
		var sizes []uint64
		for _, d := range bySlot[s] {
			accounts = append(accounts, newAccount(d.V))
			sizes = append(sizes, c.Committees[d.C].Size)
		}
		sigs, aggs, err := e.realAgg.AggregatorsAndSignatures(ctx, accounts, phase0.Slot(s), sizes)
		failing := false
		for _, d := range bySlot[s] {
			failing = failing || d.SigFail
		}
		if failing {
			if err == nil {
				js = append(js, judgement{"selection-ignores-signing-failure", fmt.Sprintf("AggregatorsAndSignatures for slot %d returned no error although the signer refused the request", s)})
			}
			continue
		}
		if err != nil || len(sigs) != len(accounts) || len(aggs) != len(accounts) {
			js = append(js, judgement{"selection-failed", fmt.Sprintf("AggregatorsAndSignatures for slot %d returned %d signatures, %d flags, error %v for %d accounts", s, len(sigs), len(aggs), err, len(accounts))})
			continue
		}
		for i, d := range bySlot[s] {
			want := slotSig(c.SigSeed, d.V, s)
			if sigs[i] != want {
				js = append(js, judgement{"wrong-slot-signature", fmt.Sprintf("slot %d validator %d: the signature returned is not the validator's signature over that slot", s, d.V)})
				continue
			}
			if ref := refIsAggregator(want, sizes[i], c.Target); aggs[i] != ref {
				js = append(js, judgement{"is-aggregator-differs-from-spec", fmt.Sprintf("slot %d validator %d committee size %d target %d: marked aggregator=%v, specification says %v", s, d.V, sizes[i], c.Target, aggs[i], ref)})
			}
		}
	}
	return js
}

// judgeInfo compares subscription info returned by Subscribe for an epoch.
func (e *env) judgeInfo(epoch uint64, info map[phase0.Slot]map[phase0.CommitteeIndex]*beaconcommitteesubscriber.Subscription, pairs map[pairKey]*pairInfo) []judgement {
	var js []judgement
	c := e.c
	seen := map[pairKey]bool{}
	for slot, m := range info {
		for ci, sub := range m {
			k := pairKey{uint64(slot), uint64(ci)}
			where := fmt.Sprintf("subscription info of epoch %d, slot %d committee %d", epoch, slot, ci)
			p := pairs[k]
			if p == nil || uint64(slot)/c.SlotsPerEpoch != epoch {
				js = append(js, judgement{"info-for-unknown-pair", where + ": no duty of ours exists there"})
				continue
			}
			seen[k] = true
			if sub == nil || sub.Duty == nil {
				js = append(js, judgement{"info-malformed", where + ": nil entry"})
				continue
			}
			v := uint64(sub.Duty.ValidatorIndex)
			if !contains(p.vals, v) {
				js = append(js, judgement{"info-wrong-validator", fmt.Sprintf("%s: names validator %d which has no duty there", where, v)})
				continue
			}
			wantSig := slotSig(c.SigSeed, v, k.slot)
			if sub.Signature != wantSig {
				js = append(js, judgement{"wrong-slot-signature", fmt.Sprintf("%s: signature stored for validator %d is not its signature over slot %d", where, v, k.slot)})
			}
			ref := refIsAggregator(wantSig, p.size, c.Target)
			if sub.IsAggregator != ref {
				js = append(js, judgement{"is-aggregator-differs-from-spec", fmt.Sprintf("%s: validator %d (committee size %d, target %d) marked aggregator=%v, specification says %v", where, v, p.size, c.Target, sub.IsAggregator, ref)})
			}
			if len(p.selected) > 0 && !sub.IsAggregator && ref == sub.IsAggregator {
				js = append(js, judgement{"selected-aggregator-not-marked", fmt.Sprintf("%s: validators %v are selected aggregators but the pair is recorded with validator %d as non-aggregator", where, p.selected, v)})
			}
			if sub.Duty.CommitteeLength != p.size || uint64(sub.Duty.Slot) != k.slot || uint64(sub.Duty.CommitteeIndex) != k.committee {
				js = append(js, judgement{"info-wrong-duty", where + ": duty fields differ from the beacon node's duty"})
			}
		}
	}
	for k := range pairs {
		if k.slot/c.SlotsPerEpoch == epoch && !seen[k] && !pairs[k].excused {
			js = append(js, judgement{"info-missing-pair", fmt.Sprintf("subscription info of epoch %d lacks slot %d committee %d", epoch, k.slot, k.committee)})
		}
	}
	return js
}

// judgeSubscriptions compares the submitted subscriptions of an epoch.
func (e *env) judgeSubscriptions(who string, epoch uint64, subs []*apiv1.BeaconCommitteeSubscription, pairs map[pairKey]*pairInfo) []judgement {
	return e.judgeSubscriptionsAt(who, epoch, subs, pairs, e.c.currentSlot(), nil, true)
}

// judgeSubscriptionsAt judges the subscriptions submitted for an epoch while cur
// was the current slot and pairs the duty table.  covered: pairs subscribed
// earlier (they need not be submitted again); demand: whether every future pair
// has to be covered at all (false for an epoch whose duties did not change).
func (e *env) judgeSubscriptionsAt(who string, epoch uint64, subs []*apiv1.BeaconCommitteeSubscription, pairs map[pairKey]*pairInfo, cur uint64, covered map[pairKey]bool, demand bool) []judgement {
	var js []judgement
	c := e.c
	want := map[pairKey]bool{}
	nonFuture := false
	for k := range pairs {
		if k.slot/c.SlotsPerEpoch != epoch {
			continue
		}
		if k.slot > cur {
			if !pairs[k].excused {
				want[k] = true
			}
		} else {
			nonFuture = true
		}
	}
	got := map[pairKey]int{}
	n := 0
	for _, s := range subs {
		if uint64(s.Slot)/c.SlotsPerEpoch != epoch {
			continue
		}
		n++
		k := pairKey{uint64(s.Slot), uint64(s.CommitteeIndex)}
		where := fmt.Sprintf("%s: subscription for slot %d committee %d", who, s.Slot, s.CommitteeIndex)
		got[k]++
		p := pairs[k]
		switch {
		case p == nil:
			js = append(js, judgement{"subscription-for-unknown-pair", where + ": none of our validators has a duty there"})
			continue
		case k.slot <= cur:
			js = append(js, judgement{"subscription-for-non-future-slot", fmt.Sprintf("%s: the current slot is %d", where, cur)})
			continue
		case got[k] > 1:
			js = append(js, judgement{"subscription-duplicate", where + ": submitted more than once"})
			continue
		}
		v := uint64(s.ValidatorIndex)
		if !contains(p.vals, v) {
			js = append(js, judgement{"subscription-wrong-validator", fmt.Sprintf("%s: names validator %d which has no duty there", where, v)})
			continue
		}
		if s.CommitteesAtSlot != c.CommitteesAtSlot {
			js = append(js, judgement{"subscription-wrong-committees-at-slot", fmt.Sprintf("%s: committees_at_slot %d, duty says %d", where, s.CommitteesAtSlot, c.CommitteesAtSlot)})
		}
		ref := refIsAggregator(slotSig(c.SigSeed, v, k.slot), p.size, c.Target)
		if s.IsAggregator != ref {
			js = append(js, judgement{"is-aggregator-differs-from-spec", fmt.Sprintf("%s: validator %d (committee size %d, target %d) submitted with is_aggregator=%v, specification says %v", where, v, p.size, c.Target, s.IsAggregator, ref)})
		} else if len(p.selected) > 0 && !s.IsAggregator {
			js = append(js, judgement{"selected-aggregator-not-marked", fmt.Sprintf("%s: validators %v are selected aggregators but the pair is subscribed as non-aggregator", where, p.selected)})
		}
	}
	var missing []string
	for k := range want {
		if got[k] == 0 && !covered[k] && demand {
			missing = append(missing, fmt.Sprintf("(slot %d, committee %d)", k.slot, k.committee))
		}
	}
	sort.Strings(missing)
	if len(missing) > 0 {
		if covered != nil {
			js = append(js, judgement{"subscription-missing-after-duty-change", fmt.Sprintf("%s: epoch %d, current slot %d: the duties changed and these future pairs of the new duties were never subscribed: %s", who, epoch, cur, strings.Join(missing, " "))})
		} else if n == 0 && nonFuture {
			js = append(js, judgement{"subscriptions-dropped-when-epoch-has-non-future-duty", fmt.Sprintf("%s: epoch %d has duties at or before the current slot %d and NO subscription at all was submitted for it; missing future pairs: %s", who, epoch, cur, strings.Join(missing, " "))})
		} else {
			js = append(js, judgement{"subscription-missing", fmt.Sprintf("%s: epoch %d, current slot %d: no subscription submitted for future pairs %s", who, epoch, cur, strings.Join(missing, " "))})
		}
	}
	return js
}

func runAndJudge(c *Case) (string, []judgement, stats) {
	var st stats
	var js []judgement
	lvl, restoreLog := useLogLevel(c.LogLevel)
	defer restoreLog()
	if err := validCase(c); err != nil {
		return err.Error(), nil, st
	}
	ctx, cancel := context.WithCancel(context.Background())
	defer cancel()
	baseline := goroutineBaseline()
	e, err := newEnv(ctx, c)
	if err != nil {
		return err.Error(), nil, st
	}
	pairs := buildPairs(c, c.Committees, c.Duties)
	// stuckInController: goroutines started by the controller are provably parked inside
	// the subscriber (Subscribe will never return): the violation, not a harness problem.
	stuckInController := func(js *[]judgement, during string) (string, []judgement, stats) {
		*js = append(*js, judgement{"subscribe-never-returned", fmt.Sprintf("a Subscribe call made by the controller did not return (%s): every goroutine inside the subscriber is parked - the unfinished workers waiting in the subscriber's own semaphore (process concurrency %d) for permits that can never be granted", during, c.concurrency())})
		cancel() // the semaphore honours the context
		quiesce(baseline)
		return "", *js, st
	}
	cur := c.currentSlot()

	// statistics for the non-trivial rule
	past, future := false, false
	aggBySlot := map[uint64]int{}
	for k, p := range pairs {
		if k.slot/c.SlotsPerEpoch == c.Epoch {
			if k.slot <= cur {
				past = true
			} else {
				future = true
			}
		}
		if len(p.selected) > 0 {
			st.aggPairs++
			if k.slot >= cur && p.hasAtt {
				aggBySlot[k.slot]++
			}
		} else {
			st.nonAggPairs++
		}
		if len(p.vals) > 1 {
			st.sharedPair = true
		}
	}
	for _, p := range pairs {
		if p.excused {
			st.excusedPairs++
		}
	}
	{
		inCur := map[uint64]bool{}
		for _, v := range e.acc.cur {
			inCur[v] = true
		}
		for _, v := range e.acc.next {
			if !inCur[v] {
				st.activationAtNextEpoch = true
			}
		}
	}
	st.bothSides = past && future
	st.pastOnly = past && !future
	st.futureOnly = future && !past
	for _, n := range aggBySlot {
		if n >= 2 {
			st.multiAggSlot = true
		}
	}

	// ---- phase 0: selection rule
	js = append(js, e.judgeSelection(ctx)...)
	for _, j := range js {
		if strings.HasPrefix(j.sig, "panic:") {
			return "", js, st // the same panic would kill the process inside Subscribe's goroutines
		}
	}

	// ---- phase 1: Subscribe called directly for both epochs
	sub1 := &subsSubmitter{}
	s1, err := e.newSubscriber(ctx, sub1, nil)
	if err != nil {
		return "cannot construct subscriber: " + err.Error(), nil, st
	}
	for _, epoch := range []uint64{c.Epoch, c.Epoch + 1} {
		info, err, returned := e.watchedSubscribe(ctx, s1, epoch)
		if err == errWatchdog {
			cancel()
			return err.Error(), nil, st
		}
		if !returned {
			js = append(js, judgement{"subscribe-never-returned", fmt.Sprintf("Subscribe(epoch %d) did not return: all of its goroutines are parked - the unfinished ones waiting for a permit of the subscriber's own semaphore (process concurrency %d) that nobody can release any more", epoch, c.concurrency())})
			cancel() // releases the parked goroutines (the semaphore honours the context)
			quiesce(baseline)
			return "", js, st // the controller's start-up would hang in the same way
		}
		if !quiesce(baseline) {
			return "goroutines of Subscribe did not finish", nil, st
		}
		if err != nil {
			js = append(js, judgement{"subscribe-failed", fmt.Sprintf("Subscribe(epoch %d) returned error %v", epoch, err)})
			continue
		}
		js = append(js, e.judgeInfo(epoch, info, pairs)...)
		js = append(js, e.judgeSubscriptions("Subscribe", epoch, sub1.all(), pairs)...)
	}

	// ---- phase 2: controller (subscribes for both epochs on start), then attest slot by slot
	sub2 := &subsSubmitter{}
	subFail := &flag{}
	s2, err := e.newSubscriber(ctx, sub2, subFail)
	if err != nil {
		return "cannot construct subscriber: " + err.Error(), nil, st
	}
	if c.SlowSubmit {
		sub2.startHolding()
	}
	sched := fakes.NewSched()
	evp := &eventsProvider{handlers: map[string]eth2client.EventHandlerFunc{}}
	spy := &spyAggregator{real: e.realAgg}
	aggDelay := 8 * time.Second
	ctrl, err := standardcontroller.New(ctx,
		standardcontroller.WithLogLevel(lvl),
		standardcontroller.WithMonitor(nullmetrics.New()),
		standardcontroller.WithSpecProvider(specProvider{c.SlotsPerEpoch, c.Target}),
		standardcontroller.WithChainTimeService(e.clock),
		standardcontroller.WithProposerDutiesProvider(mock.NewProposerDutiesProvider()),
		standardcontroller.WithAttesterDutiesProvider(&dutiesProvider{c, e.tab, nil}),
		standardcontroller.WithEventsProvider(evp),
		standardcontroller.WithValidatingAccountsProvider(e.acc),
		standardcontroller.WithProposalsPreparer(mockproposalpreparer.New()),
		standardcontroller.WithScheduler(sched),
		standardcontroller.WithAttester(&attesterD{c, e.tab}),
		standardcontroller.WithBeaconBlockProposer(mockbeaconblockproposer.New()),
		standardcontroller.WithBeaconCommitteeSubscriber(s2),
		standardcontroller.WithAttestationAggregator(spy),
		standardcontroller.WithAccountsRefresher(mockaccountmanager.NewRefresher()),
		standardcontroller.WithBlockToSlotSetter(mockcache.New(map[phase0.Root]phase0.Slot{}).(cache.BlockRootToSlotSetter)),
		standardcontroller.WithBeaconBlockHeadersProvider(mock.NewBeaconBlockHeadersProvider()),
		standardcontroller.WithSignedBeaconBlockProvider(mock.NewSignedBeaconBlockProvider()),
		standardcontroller.WithMaxAttestationDelay(4*time.Second),
		standardcontroller.WithMaxProposalDelay(4*time.Second),
		standardcontroller.WithAttestationAggregationDelay(aggDelay),
	)
	if err != nil {
		return "cannot construct controller: " + err.Error(), nil, st
	}
	if !quiesce(baseline, sub2.heldCount) {
		if quiesceStuck {
			return stuckInController(&js, "goroutines of the controller start-up did not finish")
		}
		return "goroutines of the controller start-up did not finish", nil, st
	}
	if !c.SlowSubmit {
		for _, epoch := range []uint64{c.Epoch, c.Epoch + 1} {
			js = append(js, e.judgeSubscriptions("controller start-up", epoch, sub2.all(), pairs)...)
		}
	}

	// ---- history steps: the duties change (reorg across a duty-dependent root) and/or a
	// re-subscription attempt fails.  stale[epoch]: the duty pairs of the last SUCCESSFUL
	// subscription of the epoch where they differ from the latest duties.
	stale := map[uint64]map[pairKey]*pairInfo{}
	if c.Reorg != nil || c.Refail != nil {
		head := evp.handlers["head"]
		if head == nil {
			return "the controller did not register a head event handler", nil, st
		}
		mkRoot := func(b byte) phase0.Root { var x phase0.Root; x[0], x[31] = b, 0xee; return x }
		// the head seen so far: establishes the dependent roots the duties were computed from
		head(&apiv1.Event{Topic: "head", Data: &apiv1.HeadEvent{Slot: phase0.Slot(cur), Block: mkRoot(1),
			PreviousDutyDependentRoot: mkRoot(10), CurrentDutyDependentRoot: mkRoot(20)}})
		if !quiesce(baseline) {
			if quiesceStuck {
				return stuckInController(&js, "goroutines of the head event handler did not finish")
			}
			return "goroutines of the head event handler did not finish", nil, st
		}
		prevRoot, curRoot := byte(10), byte(20)
		if r := c.Reorg; r != nil {
			// time passes, the chain re-organises, the node serves the new duties
			cur += r.Advance
			e.clock.SetSlot(cur, 2*time.Second)
			e.tab.set(r.Committees, r.Duties)
			sub2.setPhase(1)
			if r.Previous {
				prevRoot++
			}
			if r.Current {
				curRoot++
			}
			subFail.set(r.SubscribeFails)
			head(&apiv1.Event{Topic: "head", Data: &apiv1.HeadEvent{Slot: phase0.Slot(cur), Block: mkRoot(2),
				PreviousDutyDependentRoot: mkRoot(prevRoot), CurrentDutyDependentRoot: mkRoot(curRoot)}})
			ok := quiesce(baseline)
			subFail.set(false)
			if !ok {
				if quiesceStuck {
					return stuckInController(&js, "goroutines of the duty refresh did not finish")
				}
				return "goroutines of the duty refresh did not finish", nil, st
			}
			// what was validly subscribed before stays subscribed
			covered := map[pairKey]bool{}
			for _, x := range sub2.inPhase(0) {
				covered[pairKey{uint64(x.Slot), uint64(x.CommitteeIndex)}] = true
			}
			oldPairs := pairs
			pairs = buildPairs(c, r.Committees, r.Duties)
			for _, epoch := range []uint64{c.Epoch, c.Epoch + 1} {
				changed := (epoch == c.Epoch && r.Previous) || (epoch == c.Epoch+1 && r.Current)
				// a refresh that cannot obtain the duties cannot subscribe them either
				js = append(js, e.judgeSubscriptionsAt("after the duty change", epoch, sub2.inPhase(1), pairs, cur, covered, changed && !r.SubscribeFails)...)
				if changed && r.SubscribeFails {
					stale[epoch] = oldPairs
					st.failedRefreshWithChange = true
				}
				if changed {
					for k, p := range pairs {
						if k.slot/c.SlotsPerEpoch == epoch && k.slot > cur && oldPairs[k] == nil {
							st.reorgNewFuturePair = true
							if len(p.selected) > 0 && p.hasAtt {
								st.reorgNewAggregatorPair = true
							}
						}
					}
				}
			}
			st.reorg = true
		}
		if f := c.Refail; f != nil {
			// roots change once more, the duties stay, the subscriber's request is refused
			sub2.setPhase(2)
			if f.Previous {
				prevRoot++
			}
			if f.Current {
				curRoot++
			}
			subFail.set(true)
			head(&apiv1.Event{Topic: "head", Data: &apiv1.HeadEvent{Slot: phase0.Slot(cur), Block: mkRoot(3),
				PreviousDutyDependentRoot: mkRoot(prevRoot), CurrentDutyDependentRoot: mkRoot(curRoot)}})
			ok := quiesce(baseline)
			subFail.set(false)
			if !ok {
				if quiesceStuck {
					return stuckInController(&js, "goroutines of the failing re-subscription did not finish")
				}
				return "goroutines of the failing re-subscription did not finish", nil, st
			}
			for _, epoch := range []uint64{c.Epoch, c.Epoch + 1} {
				js = append(js, e.judgeSubscriptionsAt("during the failing re-subscription", epoch, sub2.inPhase(2), pairs, cur, map[pairKey]bool{}, false)...)
			}
			st.refail = true
		}
	}

	// duties per slot, as the controller obtains them (one merge per epoch)
	var duties []*attester.Duty
	for _, epoch := range []uint64{c.Epoch, c.Epoch + 1} {
		idx := make([]phase0.ValidatorIndex, 0, len(e.vs))
		for _, v := range e.vs {
			idx = append(idx, phase0.ValidatorIndex(v))
		}
		resp, _ := (&dutiesProvider{c, e.tab, nil}).AttesterDuties(ctx, &api.AttesterDutiesOpts{Epoch: phase0.Epoch(epoch), Indices: idx})
		merged, err := attester.MergeDuties(ctx, resp.Data)
		if err != nil {
			return "MergeDuties failed: " + err.Error(), nil, st
		}
		duties = append(duties, merged...)
	}
	for _, duty := range duties {
		slot := uint64(duty.Slot())
		if slot < cur {
			continue // the controller never attests for past slots
		}
		st.slotsAttested++
		e.clock.SetSlot(slot, 4*time.Second)
		logBefore := sched.LogLen()
		spy.mu.Lock()
		spy.got = nil
		spy.mu.Unlock()
		ctrl.AttestAndScheduleAggregate(ctx, duty)
		if !quiesce(baseline, sub2.heldCount) {
			if quiesceStuck {
				return stuckInController(&js, "goroutines of AttestAndScheduleAggregate did not finish")
			}
			return "goroutines of AttestAndScheduleAggregate did not finish", nil, st
		}
		// every job set up during the call is run; what reaches the aggregator is what was set up
		type jobObs struct {
			when time.Time
			duty attestationaggregator.Duty
		}
		var jobs []jobObs
		for _, entry := range sched.LogCopy()[logBefore:] {
			if entry.Op != "schedule" || entry.Err != "" {
				continue
			}
			j := sched.Get(entry.Name)
			if j == nil {
				continue
			}
			before := len(spy.got)
			sched.Fire(entry.Name)
			spy.mu.Lock()
			for _, d := range spy.got[before:] {
				jobs = append(jobs, jobObs{j.Time, d})
			}
			spy.mu.Unlock()
		}
		wantTime := e.clock.StartOfSlot(phase0.Slot(slot)).Add(aggDelay)
		// expected: one job per committee of the slot with an attestation and a selected aggregator
		gotFor := map[uint64]int{}
		for _, jb := range jobs {
			where := fmt.Sprintf("after attesting slot %d: aggregation job for validator %d", slot, jb.duty.ValidatorIndex)
			if uint64(jb.duty.Slot) != slot {
				js = append(js, judgement{"aggregation-wrong-slot", fmt.Sprintf("%s is for slot %d", where, jb.duty.Slot)})
				continue
			}
			// which committee of the slot is this validator in?  Where the last successful
			// subscription of the epoch is older than the latest duties (failed refresh) the
			// job may follow either.
			var pk *pairKey
			var p *pairInfo
			for _, m := range []map[pairKey]*pairInfo{stale[slot/c.SlotsPerEpoch], pairs} {
				for k, cand := range m {
					if pk == nil && k.slot == slot && contains(cand.vals, uint64(jb.duty.ValidatorIndex)) {
						kk := k
						pk, p = &kk, cand
					}
				}
			}
			if pk == nil {
				js = append(js, judgement{"aggregation-for-foreign-validator", where + ": the validator has no duty in this slot"})
				continue
			}
			gotFor[pk.committee]++
			where = fmt.Sprintf("%s (committee %d)", where, pk.committee)
			if !contains(p.selected, uint64(jb.duty.ValidatorIndex)) {
				js = append(js, judgement{"aggregation-by-unselected-validator", fmt.Sprintf("%s: the selection rule does not select this validator (committee size %d, target %d)", where, p.size, c.Target)})
				continue
			}
			if gotFor[pk.committee] > 1 {
				js = append(js, judgement{"aggregation-duplicate", where + ": second job for the same committee"})
				continue
			}
			if jb.duty.SlotSignature != slotSig(c.SigSeed, uint64(jb.duty.ValidatorIndex), slot) {
				js = append(js, judgement{"aggregation-wrong-slot-signature", where + ": the selection proof is not the validator's signature over the slot"})
			}
			root, err := attData(slot, pk.committee, c.SlotsPerEpoch).HashTreeRoot()
			if err != nil {
				return "hash tree root failed: " + err.Error(), nil, st
			}
			if jb.duty.AttestationDataRoot != phase0.Root(root) {
				js = append(js, judgement{"aggregation-wrong-data-root", where + ": the attestation data root is not the root of the committee's attestation data"})
			}
			if !jb.when.Equal(wantTime) {
				js = append(js, judgement{"aggregation-wrong-time", fmt.Sprintf("%s: scheduled for %s after the start of the slot, expected %s", where, jb.when.Sub(e.clock.StartOfSlot(phase0.Slot(slot))), aggDelay)})
			}
		}
		var missing []string
		expected := 0
		for k, p := range pairs {
			if k.slot != slot || !p.hasAtt || p.excused {
				continue
			}
			if old := stale[slot/c.SlotsPerEpoch]; old != nil {
				// failed refresh: only what the last successful subscription knew and still stands is demanded
				o := old[k]
				stands := false
				if o != nil && !o.excused {
					for _, v := range o.selected {
						stands = stands || contains(p.vals, v)
					}
				}
				if !stands {
					continue
				}
			} else if len(p.selected) == 0 {
				continue
			}
			expected++
			if gotFor[k.committee] == 0 {
				missing = append(missing, fmt.Sprintf("committee %d (selected validators %v)", k.committee, p.selected))
			}
		}
		sort.Strings(missing)
		if len(missing) > 0 {
			if len(jobs) == 1 && expected > 1 && len(missing) == expected-1 {
				js = append(js, judgement{"only-first-aggregation-scheduled", fmt.Sprintf("after attesting slot %d: %d committees have a selected aggregator of ours but only one aggregation job was set up; without a job: %s", slot, expected, strings.Join(missing, "; "))})
			} else {
				js = append(js, judgement{"aggregation-missing", fmt.Sprintf("after attesting slot %d: no aggregation job for %s", slot, strings.Join(missing, "; "))})
			}
		}
	}
	if c.SlowSubmit {
		// the beacon node answers at last: the subscriptions made at start-up are judged now
		sub2.releaseAll()
		if !quiesce(baseline) {
			if quiesceStuck {
				return stuckInController(&js, "goroutines of the released subscription requests did not finish")
			}
			return "goroutines of the released subscription requests did not finish", nil, st
		}
		for _, epoch := range []uint64{c.Epoch, c.Epoch + 1} {
			js = append(js, e.judgeSubscriptions("controller start-up (answered late)", epoch, sub2.all(), pairs)...)
		}
	}
	cancel()
	return "", js, st
}

func check(t ev.TB, c *Case) {
	harness, js, st := runAndJudge(c)
	if harness != "" {
		t.Fatalf("harness problem: %s", harness)
	}
	nontrivial := st.bothSides || st.multiAggSlot || st.reorgNewFuturePair || st.refail || st.failedRefreshWithChange
	var labels []string
	if st.bothSides {
		labels = append(labels, "duties-on-both-sides-of-current-slot")
	}
	if st.pastOnly {
		labels = append(labels, "duties-only-at-or-before-current-slot")
	}
	if st.futureOnly {
		labels = append(labels, "duties-only-after-current-slot")
	}
	if st.multiAggSlot {
		labels = append(labels, "slot-with>=2-aggregator-committees")
	}
	if st.sharedPair {
		labels = append(labels, "committee-with-several-of-our-validators")
	}
	if st.reorg {
		labels = append(labels, "history-with-duty-change")
	}
	if st.refail {
		labels = append(labels, "history-with-failing-re-subscription")
	}
	if c.SlowSubmit {
		labels = append(labels, "subscription-requests-answered-after-attesting")
	}
	if st.excusedPairs > 0 {
		labels = append(labels, "slot-selection-signing-fails-for-some-slot")
	}
	if st.activationAtNextEpoch {
		labels = append(labels, "validator-active-only-from-next-epoch")
	}
	labels = append(labels, fmt.Sprintf("process-concurrency-%d", c.concurrency()), "log-level-"+levelOf(c.LogLevel).String())
	if st.failedRefreshWithChange {
		labels = append(labels, "duty-change-whose-re-subscription-fails")
	}
	if st.reorgNewFuturePair {
		labels = append(labels, "duty-change-creates-new-future-pair")
	}
	if st.reorgNewAggregatorPair {
		labels = append(labels, "duty-change-creates-new-future-aggregator-pair")
	}
	if st.aggPairs > 0 && st.nonAggPairs > 0 {
		labels = append(labels, "aggregator-and-non-aggregator-pairs")
	}
	ev.Case(nontrivial, ev.Hash(c), labels...)
	ev.LabelN("pairs-aggregator", int64(st.aggPairs))
	ev.LabelN("pairs-non-aggregator", int64(st.nonAggPairs))
	ev.LabelN("slots-attested", int64(st.slotsAttested))
	if nontrivial {
		ev.Sample(c)
	}
	// one report per signature and case
	reported := map[string]bool{}
	for _, j := range js {
		if reported[j.sig] {
			continue
		}
		reported[j.sig] = true
		ev.Violation(t, j.sig, c, "%s", j.detail)
	}
}

func TestSubscribeAndAggregate(t *testing.T) {
	rapid.Check(t, func(t *rapid.T) {
		c := genCase(t)
		check(t, &c)
	})
}

// TestReplay re-executes a saved case without the property library.
func TestReplay(t *testing.T) {
	f := ev.ReplayFile()
	if f == "" {
		t.Skip("no replay file")
	}
	var c Case
	if _, err := ev.LoadCase(f, &c); err != nil {
		t.Fatalf("cannot load %s: %v", f, err)
	}
	check(t, &c)
	ev.ReplayPassed()
}

var _ eth2client.AttesterDutiesProvider = (*dutiesProvider)(nil)
