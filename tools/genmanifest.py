#!/usr/bin/env python3
"""Regenerates /verif/MANIFEST.json from harness/*/check.json and properties.jsonl."""
import glob, json, os
V = os.path.dirname(os.path.dirname(os.path.abspath(__file__)))
props = [json.loads(l) for l in open(os.path.join(V, "properties.jsonl")) if l.strip()]
cfgs = {}
for f in sorted(glob.glob(os.path.join(V, "harness", "*", "check.json"))):
    c = json.load(open(f))
    claimed = set(open(os.path.join(V, "claimed.txt")).read().split())
    if c.get("claim", True) and c["property"] in claimed:
        cfgs[c["property"]] = (os.path.basename(os.path.dirname(f)), c)
na_path = os.path.join(V, "not_applicable.json")
na_reasons = json.load(open(na_path)) if os.path.exists(na_path) else {}
checks, na = [], []
for p in props:
    pid = p["id"]
    if pid in cfgs:
        pkg, c = cfgs[pid]
        checks.append({
            "property_id": pid,
            "quick_cmd": "./check %s --tier quick" % pid,
            "thorough_cmd": "./check %s --tier thorough" % pid,
            "evidence_file": "/verif/evidence/%s.json" % pid,
            "replay_cmd_template": "./check %s --replay {path}" % pid,
            "engine": "harness/" + pkg,
            "level_claimed": {"category": c.get("level", "exploration"), "text": c["level_text"],
                              "design_ref": c.get("design_ref", "DESIGN.md section " + pid)},
            "level_note": c["level_note"],
            "technique": c["technique"],
        })
    else:
        na.append({"property_id": pid, "reason": na_reasons.get(pid, "check not built yet (work in progress); nothing is claimed for this property")})
m = {
    "version": 1,
    "setup_cmd": "./setup.sh",
    "hooks": {
        "guard": "verif",
        "enable": "no source hooks exist: the harness is an external Go module (harness/) that imports /repo through a replace directive and observes it through exported APIs, doubles and reflection; `-tags verif` would be the guard if a hook were ever needed",
        "baseline_off_cmd": "cd /repo && GOFLAGS=-mod=mod GOPROXY=off GOSUMDB=off GOTOOLCHAIN=local go test -json -vet=off -count=1 -timeout 25m ./...",
        "source_commits": [],
        "add_only": True,
    },
    "engines": [{"name": "harness/" + pkg, "path": "harness/" + pkg, "serves_properties": [pid],
                 "kind_free_text": c["technique"]} for pid, (pkg, c) in sorted(cfgs.items())],
    "checks": checks,
    "not_applicable": na,
    "notes": "Driver: ./check <ID> --tier quick|thorough [--replay FILE]; exit 0 held / 1 VIOLATION / 2 inconclusive. Every check rebuilds its test binary from /repo's working tree (go test -c against a replace directive). Fixed and open findings: known_findings.json. See DESIGN.md.",
}
json.dump(m, open(os.path.join(V, "MANIFEST.json"), "w"), indent=1)
print("MANIFEST.json: %d checks, %d not claimed" % (len(checks), len(na)))
