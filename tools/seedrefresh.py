#!/usr/bin/env python3
"""Refreshes checks/caught_by/confirmed of every seeded/*/meta.json from its verify.json (keeps needs_to_manifest)."""
import glob, json, os, subprocess
V = os.path.dirname(os.path.dirname(os.path.abspath(__file__)))
rows = []
for d in sorted(glob.glob(os.path.join(V, "seeded", "C*-*"))):
    mp, vp = os.path.join(d, "meta.json"), os.path.join(d, "verify.json")
    if not (os.path.exists(mp) and os.path.exists(vp)):
        print("incomplete:", d); continue
    m = json.load(open(mp))
    subprocess.run([os.path.join(V, "tools", "seedmeta.py"), d, m["property"], m["needs_to_manifest"]], stdout=subprocess.DEVNULL)
    m2 = json.load(open(mp))
    rows.append((os.path.basename(d), m2["caught_by"], m2["confirmed"]["existing_suite_passes_with_change"]))
for r in rows:
    print(*r)
