#!/usr/bin/env python3
"""tools/seedmeta.py <dir> <property> "<needs>" — writes meta.json from verify.json"""
import json, os, sys
d, pid, needs = sys.argv[1], sys.argv[2], sys.argv[3]
v = json.load(open(os.path.join(d, "verify.json")))
meta = {
 "property": pid,
 "breaks": pid,
 "needs_to_manifest": needs,
 "source": "independent sub-agent given only the property text and a scratch worktree",
 "confirmed": {
   "repo_head": v.get("repo_head"),
   "demo_passes_without_change": v["demo_without_change"]["rc"] == 0,
   "change_builds": v["build"]["rc"] == 0,
   "demo_fails_with_change": v["demo_with_change"]["rc"] != 0,
   "existing_suite_passes_with_change": (v.get("suite_with_change") or {}).get("rc") == 0,
   "suite_note": v.get("suite_note", ""),
 },
 "ran": ["tools/seedverify %s %s (scratch worktree of /repo HEAD: demo without change, git apply patch.diff, go build ./..., demo with change, go test -vet=off -count=1 ./... with change, ./check against the changed tree)" % (pid, os.path.basename(d))],
 "checks": {c: {"exit": r["rc"], "wall_s": r["wall_s"]} for c, r in v["checks"].items()},
 "caught_by": v.get("caught_by", []),
}
json.dump(meta, open(os.path.join(d, "meta.json"), "w"), indent=1)
print(json.dumps(meta["confirmed"]), meta["caught_by"])
