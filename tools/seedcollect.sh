#!/bin/sh
# tools/seedcollect.sh <tag> <ID>... — copies /tmp/<tag>-<ID>/_seeded/{1,2,3} into seeded/<ID>-<next k>, removes the worktrees, prints the new names
cd "$(dirname "$0")/.."
tag=$1; shift
for id in "$@"; do
  base=$(ls -d seeded/$id-* 2>/dev/null | sed "s/.*-//" | sort -n | tail -n 1); base=${base:-0}
  for k in 1 2 3; do
    src=/tmp/$tag-$id/_seeded/$k
    [ -f $src/patch.diff ] || continue
    n=$((k+base)); mkdir -p seeded/$id-$n
    find $src -name "*_test.go" -exec cp {} seeded/$id-$n/ \;
    cp $src/patch.diff $src/DEMO_PATH.txt $src/README.md seeded/$id-$n/ 2>/dev/null
    sed -i 's/^NOTE/# NOTE/' seeded/$id-$n/DEMO_PATH.txt
    echo "$id-$n"
  done
  git -C /repo worktree remove --force /tmp/$tag-$id 2>/dev/null
done
git -C /repo worktree prune
