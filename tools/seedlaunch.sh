#!/bin/sh
# tools/seedlaunch.sh <tag> <ID>... — creates worktrees /tmp/<tag>-<ID> and prompts /tmp/seedprompt-<tag>-<ID>.txt with diversity hints
cd "$(dirname "$0")/.."
tag=$1; shift
for id in "$@"; do
  git -C /repo worktree add -q --detach /tmp/$tag-$id HEAD
  hint=$(python3 - "$id" <<'PY'
import json,sys,glob,os
pid=sys.argv[1]
items=[]
for d in sorted(glob.glob('/verif/seeded/%s-*'%pid)):
    m=os.path.join(d,'meta.json')
    if os.path.exists(m):
        items.append(json.load(open(m))['needs_to_manifest'].split(' — ')[0])
if items:
    print("5. DIVERSITY: the following kinds of change have ALREADY been produced by others for this property; do not repeat them or close variants — aim at different mechanisms, files and trigger kinds (prefer: a fault at a specific point of a multi-step history, an interleaving of two operations, two cooperating sites that each look fine alone, a boundary of a numeric conversion, state left behind by an earlier failed call, a code path only reached through a less common caller or configuration). Give each demo test file a name unique to this task (zz_seeded_"+pid.lower()+"r_<k>_test.go). Already done: " + " || ".join(items))
PY
)
  python3 tools/seedprompt.py $id /tmp/$tag-$id 3 "$hint" > /tmp/seedprompt-$tag-$id.txt
done
ls /tmp/seedprompt-$tag-*.txt
