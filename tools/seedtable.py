#!/usr/bin/env python3
"""Rewrites the seeded-change table in DESIGN.md (between the seedtable markers) from seeded/*/meta.json."""
import glob, json, os, re
V = os.path.dirname(os.path.dirname(os.path.abspath(__file__)))
rows = []
def key(d):
    b = os.path.basename(d); p, k = b.split("-"); return (p, int(k))
for d in sorted(glob.glob(os.path.join(V, "seeded", "C*-*")), key=key):
    m = json.load(open(os.path.join(d, "meta.json")))
    first = ""
    rd = os.path.join(d, "README.md")
    needs = m["needs_to_manifest"].replace("|", "\\|")
    rows.append("| %s | %s | %s |" % (os.path.basename(d), needs, ", ".join(m["caught_by"]) or "**none**"))
n = len(rows)
own = sum(1 for d in glob.glob(os.path.join(V, "seeded", "C*-*")) if json.load(open(os.path.join(d, "meta.json")))["property"] in json.load(open(os.path.join(d, "meta.json")))["caught_by"])
tab = "| change | what it needs in order to manifest | caught by (quick tier) |\n|---|---|---|\n" + "\n".join(rows)
tab += "\n\n%d kept changes; %d caught by the check of the property they were written against, the rest by the sibling check named.\n" % (n, own)
p = os.path.join(V, "DESIGN.md")
s = open(p).read()
s = re.sub(r"<!-- seedtable:begin -->.*?<!-- seedtable:end -->", "<!-- seedtable:begin -->\n" + tab + "<!-- seedtable:end -->", s, flags=re.S)
open(p, "w").write(s)
print(n, own)
