#!/usr/bin/env python3
"""Prints the prompt for a seeded-change sub-agent: tools/seedprompt.py <ID> <worktree> [n-variants] [hint]"""
import json, sys
pid, wt = sys.argv[1], sys.argv[2]
n = sys.argv[3] if len(sys.argv) > 3 else "2"
hint = sys.argv[4] if len(sys.argv) > 4 else ""
p = [json.loads(l) for l in open('/verif/properties.jsonl') if l.strip()]
p = [x for x in p if x['id'] == pid][0]
print(f"""You are helping to evaluate a verification effort for the Go project attestantio/vouch (an Ethereum validator client). Your job is to act as a realistic source of regressions: produce {n} *different* small source changes ("seeded changes") to vouch, each of which breaks the semantic property below while the project still compiles and its existing test suite still passes.

You have your own scratch git worktree of the repository at {wt} (already created; work ONLY there; do not touch /repo or /verif, and do not read anything under /verif). Shell environment for every go command: `export GOFLAGS=-mod=mod GOPROXY=off GOSUMDB=off GOTOOLCHAIN=local` (no network is available).

THE PROPERTY ({p['id']}: {p['title']})
Statement: {p['statement']}
Quantified over: {p['quantifier']['text']}
Where it lives: files {', '.join(p['anchors']['files'])}
Mechanisms: {json.dumps(p['anchors']['mechanism'])}
Observation points: {json.dumps(p['anchors'].get('observe_at', []))}

REQUIREMENTS FOR EACH CHANGE
1. It is a plausible mistake or "refactoring"/"optimisation" a developer could make in non-test source files of vouch (no test files edited, no build tags, no new dependencies), small (a few lines; at most two cooperating sites).
2. The repository still builds (`go build ./...`) and the existing tests of the affected packages AND the whole suite still pass: `cd {wt} && go test -vet=off -count=1 ./...` (takes about a minute).
3. It breaks the property, but NOT in a way ordinary use would expose at once: it must need something specific to manifest — a particular interleaving, a crash/fault at a particular point, a multi-step sequence of operations, an unusual (but legal) input, a boundary value, or two cooperating sites that each look fine alone. Avoid changes that make every call fail.
4. A demonstration: a Go test file (or small program) that FAILS with the change applied and PASSES on the unchanged code, exercising the real vouch code (put it in the appropriate package directory of the worktree as `zz_seeded_<k>_test.go`, or as an external test package). Explain in two or three sentences what the trigger is.
{hint}
PROCEDURE
- Read the anchored code and its callers first. Make change k in the worktree, run build + full test suite, write the demo test, confirm it fails; `git stash`/revert the source change (keep the demo), confirm the demo passes on unchanged code; restore.
- Save, for each change k = 1..{n}, under {wt}/_seeded/<k>/ : `patch.diff` (output of `git diff` for the NON-test source change only, applicable with `git apply` from the repository root), the demo test file(s) copied there together with a note of where it must be placed (`DEMO_PATH.txt` containing the repo-relative path), and `README.md` (what the change does, why it breaks the property, what it needs to manifest, exact commands you ran and their outcome).
- Leave the worktree with NO source change applied at the end (the _seeded directory is untracked and stays).
Final message: a short list of the changes with their trigger conditions and confirmation that (a) suite passes with each change, (b) demo fails with / passes without.""")
