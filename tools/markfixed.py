#!/usr/bin/env python3
"""tools/markfixed.py <ID> <commit> [signature ...]  — moves entries of known_findings.d/<ID>.json (all, or the
listed signatures) into known_findings.json with status fixed."""
import json, os, sys
V = os.path.dirname(os.path.dirname(os.path.abspath(__file__)))
pid, commit, sigs = sys.argv[1], sys.argv[2], sys.argv[3:]
dp = os.path.join(V, "known_findings.d", pid + ".json")
main = os.path.join(V, "known_findings.json")
d = json.load(open(dp)) if os.path.exists(dp) else []
m = json.load(open(main))
keep = []
for e in d:
    if not sigs or e["signature"] in sigs:
        e = dict(e)
        e["status"] = "fixed"
        e["commit"] = commit
        w = e["what"]
        if not w.startswith("fixed:"):
            e["what"] = "fixed: property=%s %s %s" % (pid, commit, w)
        m = [x for x in m if not (x["property"] == pid and x["signature"] == e["signature"])]
        m.append(e)
    else:
        keep.append(e)
m.sort(key=lambda x: (x["property"], x["signature"]))
json.dump(m, open(main, "w"), indent=1)
if keep:
    json.dump(keep, open(dp, "w"), indent=1)
elif os.path.exists(dp):
    os.remove(dp)
print("known_findings.json:", len(m), "entries;", pid, "open left:", len(keep))
