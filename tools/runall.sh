#!/bin/sh
# tools/runall.sh [tier] [seed] — runs every claimed check sequentially, prints one line each
cd "$(dirname "$0")/.."
mkdir -p .build; tier=${1:-quick}; seed=${2:-1}
for id in $(cat claimed.txt | sort); do
  t0=$(date +%s)
  VERIF_SEED=$seed ./check $id --tier $tier > .build/runall-$id.log 2>&1; rc=$?
  echo "$id rc=$rc $(($(date +%s)-t0))s $(tail -n 1 .build/runall-$id.log | cut -c1-150)"
  grep -E "^(VIOLATION|KNOWN-FINDING|INCONCLUSIVE)" .build/runall-$id.log | head -5
done
